#!/bin/bash
# Determinism self-test: every check's parts, N runs each, for several seeds, in fresh processes
# with 1, 5 and 16 workers; the per-part event-hash lines must be identical.
#   tools_determinism.sh [runs] [seed ...]
set -u
cd /verif/sim || exit 2
CARGO_NET_OFFLINE=true cargo build --release --offline >/dev/null 2>&1 || { echo "build failed"; exit 2; }
RUNS=${1:-3000}; shift
SEEDS=${*:-1 2 3 7 1234567}
tmp=$(mktemp -d /root/scratch/det.XXXXXX 2>/dev/null || mktemp -d)
bad=0; compared=0
for s in $SEEDS; do
  for w in 16 1 5 16; do
    VERIF_EVIDENCE_DIR=$tmp ./target/release/sim selftest determinism --runs "$RUNS" --seed "$s" --workers "$w" > "$tmp/out.$s.$w.$RANDOM" 2>&1
  done
  first=""
  for f in "$tmp"/out.$s.*; do
    if [ -z "$first" ]; then first=$f; continue; fi
    compared=$((compared+1))
    if ! diff -q "$first" "$f" >/dev/null; then echo "MISMATCH seed=$s: $first vs $f"; diff "$first" "$f" | head -10; bad=$((bad+1)); fi
  done
done
lines=$(cat "$tmp"/out.* | wc -l)
echo "determinism: seeds=[$SEEDS] runs_per_part=$RUNS process_pairs_compared=$compared hash_lines=$lines mismatches=$bad"
rm -rf "$tmp"
mkdir -p /verif/selftest
printf '{"seeds":"%s","runs_per_part":%s,"worker_counts":[16,1,5,16],"fresh_process_pairs_compared":%s,"hash_lines_compared":%s,"mismatches":%s,"repo_head":"%s","date":"%s"}\n' "$SEEDS" "$RUNS" "$compared" "$lines" "$bad" "$(git -C /repo rev-parse --short HEAD)" "$(date -u +%FT%TZ)" > /verif/selftest/determinism.json
[ $bad = 0 ]
