#!/bin/sh
# Reach measurement: builds the simulator with source-based coverage instrumentation (nightly
# toolchain, scratch target dir outside /repo and /verif), runs every check's quick tier at a tenth
# of its budget, and reports which lines of /repo/src the simulated runs executed.
# Result: /verif/selftest/coverage.txt (summary + every line never executed).
set -eu
S=/root/scratch/cov
T=$(dirname "$(rustc +nightly --print target-libdir)")/bin
rm -rf $S; mkdir -p $S/ev
cd /verif/sim
RUSTFLAGS="-C instrument-coverage" CARGO_TARGET_DIR=$S/target CARGO_NET_OFFLINE=true cargo +nightly build --profile release --offline >$S/build.log 2>&1
export VERIF_DIR=/verif VERIF_EVIDENCE_DIR=$S/ev VERIF_SCALE=${VERIF_SCALE:-0.1}
for p in C01 C02 C06 C07 C08 C09 C10 C11 C12 C13 C14 C15 C17 C18 C20; do
    LLVM_PROFILE_FILE=$S/$p-%p.profraw $S/target/release/sim check $p --tier quick >$S/$p.log 2>&1 || { echo "$p failed under instrumentation"; tail -3 $S/$p.log; }
done
$T/llvm-profdata merge -sparse $S/*.profraw -o $S/all.profdata
OUT=/verif/selftest/coverage.txt
{
  echo "# lines of /repo/src executed by the simulated runs (all 15 checks, quick tier, VERIF_SCALE=$VERIF_SCALE)"
  echo "# repo commit $(git -C /repo rev-parse --short HEAD), $(date -u +%Y-%m-%dT%H:%MZ)"
  $T/llvm-cov report $S/target/release/sim -instr-profile=$S/all.profdata /repo/src/*.rs 2>/dev/null | awk '{printf "%-14s lines=%-6s missed=%-4s %s\n",$1,$8,$9,$10}'
  echo
  echo "# lines never executed:"
  for f in /repo/src/*.rs; do
    $T/llvm-cov show $S/target/release/sim -instr-profile=$S/all.profdata $f 2>/dev/null | grep -E '^\s+[0-9]+\|\s+0\|' | sed "s|^|$(basename $f):|" || true
  done
} > $OUT
cat $OUT
rm -rf $S
