//! Engine E — miri-sim. The real `BodyWriter`/`Body` pair (and the real `ChunkedReadFile`) run on
//! free-running std threads inside the Miri interpreter, whose scheduler pre-empts threads at
//! basic-block granularity from a seeded PRNG (`-Zmiri-seed`): one Miri seed is one exactly
//! repeatable interleaving, also of plain memory accesses, atomics and `OnceLock`s that the
//! lock-granularity scheduler of engine C cannot separate. Miri additionally reports deadlocks
//! (= lost wake-ups), data races and undefined behaviour.
//!
//!   msim chunker <focus> [--tape a,b,c]         workload from Miri's seeded entropy (isolation on)
//!   msim files   <focus> --wseed N | --tape ..  workload from N (isolation off: real files)
//!
//! Output protocol (stdout): `TAPE ..`, `CONFIG ..`, `SIG <hex>`, `STAT k=v ..`; a violation is a
//! panic whose message starts with `ORACLE <property> <code>:`.

#[path = "../../sim/src/inflate.rs"]
#[allow(dead_code)]
mod inflate;

use http_body::Body as _;
use std::hash::{BuildHasher, Hasher};
use std::io::Write;
use std::pin::Pin;
use std::sync::atomic::{AtomicBool, Ordering::SeqCst};
use std::sync::{Arc, Condvar, Mutex};
use std::task::{Context, Poll, Wake, Waker};

type BoxErr = Box<dyn std::error::Error + Send + Sync>;

// ------------------------------------------------------------------ tape

pub struct Tape {
    vals: Vec<u32>,
    pos: usize,
    s: [u64; 4],
    replay: bool,
}

fn splitmix(x: &mut u64) -> u64 {
    *x = x.wrapping_add(0x9E37_79B9_7F4A_7C15);
    let mut z = *x;
    z = (z ^ (z >> 30)).wrapping_mul(0xBF58_476D_1CE4_E5B9);
    z = (z ^ (z >> 27)).wrapping_mul(0x94D0_49BB_1331_11EB);
    z ^ (z >> 31)
}

impl Tape {
    fn search(seed: u64) -> Tape {
        let mut x = seed;
        Tape { vals: Vec::new(), pos: 0, s: [splitmix(&mut x), splitmix(&mut x), splitmix(&mut x), splitmix(&mut x)], replay: false }
    }
    fn replay(vals: Vec<u32>) -> Tape {
        Tape { vals, pos: 0, s: [0; 4], replay: true }
    }
    fn next(&mut self) -> u64 {
        let r = self.s[1].wrapping_mul(5).rotate_left(7).wrapping_mul(9);
        let t = self.s[1] << 17;
        self.s[2] ^= self.s[0];
        self.s[3] ^= self.s[1];
        self.s[1] ^= self.s[2];
        self.s[0] ^= self.s[3];
        self.s[2] ^= t;
        self.s[3] = self.s[3].rotate_left(45);
        r
    }
    pub fn draw(&mut self, bound: u32) -> u32 {
        let bound = bound.max(1);
        let v = if self.replay {
            let v = self.vals.get(self.pos).copied().unwrap_or(0) % bound;
            if self.pos >= self.vals.len() {
                self.vals.push(v);
            } else {
                self.vals[self.pos] = v;
            }
            v
        } else {
            let v = (self.next() >> 33) as u32 % bound;
            self.vals.push(v);
            v
        };
        self.pos += 1;
        v
    }
    pub fn chance(&mut self, n: u32, d: u32) -> bool {
        self.draw(d) < n
    }
}

fn mix(a: u64, b: u64) -> u64 {
    let mut x = a ^ b.wrapping_mul(0x9E37_79B9_7F4A_7C15);
    x ^= x >> 32;
    x = x.wrapping_mul(0xD6E8_FEB8_6659_FD93);
    x ^= x >> 32;
    x = x.wrapping_mul(0xD6E8_FEB8_6659_FD93);
    x ^ (x >> 32)
}

fn ebyte(seed: u64, i: u64, compressible: bool) -> u8 {
    if compressible {
        b"abcdefgh"[((i / 3) % 8) as usize]
    } else {
        (mix(seed ^ 0xA5A5_5A5A_DEAD_BEEF, i) >> 24) as u8
    }
}

fn oracle(prop: &str, code: &str, msg: String) -> ! {
    // One line, so that the driver can parse it out of Miri's stderr.
    panic!("ORACLE {prop} {code}: {}", msg.replace('\n', " "));
}

// ------------------------------------------------------------------ wakers

struct W {
    m: Mutex<bool>,
    c: Condvar,
    wakes: std::sync::atomic::AtomicU64,
}
impl Wake for W {
    fn wake(self: Arc<Self>) {
        self.wake_by_ref()
    }
    fn wake_by_ref(self: &Arc<Self>) {
        self.wakes.fetch_add(1, SeqCst);
        *self.m.lock().unwrap() = true;
        self.c.notify_all();
    }
}
fn new_w() -> Arc<W> {
    Arc::new(W { m: Mutex::new(false), c: Condvar::new(), wakes: Default::default() })
}

// ------------------------------------------------------------------ scenario 1: chunker

#[derive(Clone, Copy, Debug, PartialEq, Eq)]
enum POp {
    Write(usize),
    Flush,
    Yield,
    Abort,
    Drop,
    Panic,
}

#[derive(Clone, Debug, PartialEq)]
enum Step {
    Pending,
    Data(usize),
    End,
    Err(String),
}

#[derive(Clone, Debug)]
struct Sample {
    lower: u64,
    upper: Option<u64>,
    eos: bool,
    writer_gone_before: bool,
    abort_done_before: bool,
}

#[derive(Default)]
struct ProducerOut {
    accepted: Vec<u8>,
    ops: Vec<String>,
    aborted: bool,
    finding: Option<(&'static str, String)>, // C11 findings: (code, message)
}

#[derive(Default)]
struct ConsumerOut {
    steps: Vec<(Sample, Step)>,
    terminal: Option<usize>,
    delivered: Vec<u8>,
    body_dropped: bool,
    too_many_polls: bool,
    polls_after_writer_gone: usize,
    parked: u64,
    spurious: u64,
    fresh: u64,
    wakes: u64,
}

struct ProducerPanicMarker;

static BODY_DROPPED: AtomicBool = AtomicBool::new(false);
static WRITER_GONE: AtomicBool = AtomicBool::new(false);
static ABORT_DONE: AtomicBool = AtomicBool::new(false);

fn chunker(focus: &str, t: &mut Tape) {
    let chunk = [1usize, 2, 3, 4, 7, 16][t.draw(6) as usize];
    let gzip = match focus {
        "C08" => false,
        "C09" => true,
        // The compressor's set-up costs seconds under Miri: keep gzip runs rare.
        _ => t.chance(1, 24),
    };
    let level = 1 + t.draw(9);
    let seed = t.draw(u32::MAX) as u64;
    let compressible = t.chance(1, 2);
    let n_ops = 1 + t.draw(6);
    let allow_abort = !matches!(focus, "C08" | "C09");
    let mut prog = Vec::new();
    for _ in 0..n_ops {
        let op = match t.draw(11) {
            0..=3 => POp::Write(match t.draw(5) {
                0 => 1,
                1 => chunk,
                2 => chunk + 1,
                3 => 0,
                _ => 1 + t.draw(3 * chunk as u32) as usize,
            }),
            4..=6 => POp::Flush,
            7 | 10 => POp::Yield,
            8 if allow_abort => POp::Abort,
            8 => POp::Flush,
            9 if t.chance(1, 3) => POp::Panic,
            _ => POp::Drop,
        };
        prog.push(op);
        if matches!(op, POp::Abort | POp::Drop | POp::Panic) {
            break;
        }
    }
    // Two bit masks instead of 96 draws (formatting a long tape costs interpreter time).
    let (m1, m2, m3) = (t.draw(u32::MAX), t.draw(u32::MAX), t.draw(u32::MAX));
    let fresh: Vec<bool> = (0..32).map(|i| (m1 >> i) & 1 == 1 && (m2 >> i) & 1 == 1 || (m1 >> i) & 3 == 3 && i % 3 == 0).collect();
    let spurious_at: Vec<bool> = (0..32).map(|i| (m3 >> i) & 7 == 7).collect();
    let spurious_budget = t.draw(3) as u64;
    let overpoll = if focus == "C20" { 1 + t.draw(4) } else { t.draw(3) };
    let body_drop_at: Option<u32> = if focus == "C11" && t.chance(1, 2) { Some(t.draw(6)) } else { None };
    println!("TAPE {}", t.vals.iter().map(|v| v.to_string()).collect::<Vec<_>>().join(","));
    println!("CONFIG scenario=chunker focus={focus} chunk={chunk} gzip={gzip} level={level} compressible={compressible} program={prog:?} overpoll={overpoll} spurious_budget={spurious_budget} body_drop_at={body_drop_at:?}");

    let mut rb = http::Request::builder().method("GET").uri("/t");
    if gzip {
        rb = rb.header("accept-encoding", "gzip");
    }
    let req = rb.body(()).unwrap();
    let (resp, w) = http_serve::streaming_body(&req).with_chunk_size(chunk).with_gzip_level(level).build::<bytes::Bytes, BoxErr>();
    let is_gzip = resp.headers().contains_key("content-encoding");
    let w = w.expect("GET has a writer");
    let body = resp.into_body();

    // ---------------- producer thread
    let prog2 = prog.clone();
    let producer = std::thread::spawn(move || {
        let mut o = ProducerOut::default();
        let mut w = Some(w);
        let mut dead = false;
        let mut ok_after_drop = 0usize;
        let mut panic_now = false;
        for op in prog2 {
            let body_gone_before = BODY_DROPPED.load(SeqCst);
            match op {
                POp::Write(n) => {
                    let p0 = o.accepted.len() as u64;
                    let buf: Vec<u8> = (0..n as u64).map(|i| ebyte(seed, p0 + i, compressible)).collect();
                    let Some(wr) = w.as_mut() else { break };
                    let r = wr.write(&buf);
                    match &r {
                        Ok(k) => {
                            if *k > n {
                                o.finding = Some(("write-accepted-more-than-given", format!("write({n}) -> Ok({k})")));
                            }
                            o.accepted.extend_from_slice(&buf[..(*k).min(n)]);
                            if body_gone_before {
                                ok_after_drop += *k;
                            }
                            if dead && n > 0 {
                                o.finding = Some(("op-succeeded-after-failure", format!("write({n}) succeeded after an earlier failure/abort")));
                            }
                        }
                        Err(_) => dead = true,
                    }
                    o.ops.push(format!("write({n}) -> {:?}", r.map_err(|e| e.to_string())));
                }
                POp::Flush => {
                    let Some(wr) = w.as_mut() else { break };
                    let surely = ok_after_drop > 0;
                    let r = wr.flush();
                    match &r {
                        Ok(()) => {
                            ok_after_drop = 0;
                            if dead {
                                o.finding = Some(("op-succeeded-after-failure", "flush succeeded after an earlier failure/abort".into()));
                            }
                            if body_gone_before && surely {
                                o.finding = Some(("writer-not-told-of-body-drop", "a flush with bytes to hand over, invoked after the body had been dropped, returned Ok".into()));
                            }
                        }
                        Err(_) => dead = true,
                    }
                    o.ops.push(format!("flush -> {:?}", r.map_err(|e| e.to_string())));
                }
                POp::Yield => {
                    std::thread::yield_now();
                    o.ops.push("yield".into());
                }
                POp::Abort => {
                    let Some(wr) = w.as_mut() else { break };
                    wr.abort(Box::<dyn std::error::Error + Send + Sync>::from("injected abort"));
                    dead = true;
                    o.aborted = true;
                    ABORT_DONE.store(true, SeqCst);
                    WRITER_GONE.store(true, SeqCst);
                    o.ops.push("abort".into());
                }
                POp::Panic => {
                    o.ops.push("panic (writer dropped by unwinding)".into());
                    panic_now = true;
                    break;
                }
                POp::Drop => {
                    drop(w.take());
                    WRITER_GONE.store(true, SeqCst);
                    o.ops.push("drop(writer)".into());
                }
            }
        }
        if panic_now {
            // The writer is dropped while this thread unwinds (no panic hook output: resume_unwind).
            let guard = WriterGoneOnDrop;
            let _w = w;
            let _g = guard;
            let r = std::panic::catch_unwind(std::panic::AssertUnwindSafe(move || {
                let _w = _w;
                let _g = _g;
                std::panic::resume_unwind(Box::new(ProducerPanicMarker));
            }));
            let _ = r;
            return o;
        }
        // Probe: once the body is known to be gone, the writer must be told within a bound.
        if BODY_DROPPED.load(SeqCst) && !dead {
            if let Some(wr) = w.as_mut() {
                let mut told = false;
                let mut wrote = 0usize;
                for _ in 0..4 {
                    let buf: Vec<u8> = (0..(2 * chunk + 1) as u64).map(|i| ebyte(seed ^ 77, i + wrote as u64, false)).collect();
                    match wr.write(&buf) {
                        Ok(k) => {
                            wrote += k;
                            o.accepted.extend_from_slice(&buf[..k.min(buf.len())]);
                        }
                        Err(_) => {
                            told = true;
                            break;
                        }
                    }
                    if wr.flush().is_err() {
                        told = true;
                        break;
                    }
                    if wrote == 0 {
                        continue;
                    }
                    // A flush that handed over bytes accepted after the drop returned Ok.
                    break;
                }
                o.ops.push(format!("probe after body drop: wrote {wrote}, told={told}"));
                if !told && wrote > 0 {
                    o.finding = Some(("writer-not-told-of-body-drop", format!("after the body was dropped the writer accepted {wrote} more bytes and a flush, all Ok")));
                }
            }
        }
        if w.is_some() {
            drop(w.take());
            WRITER_GONE.store(true, SeqCst);
            o.ops.push("drop(writer) [end of program]".into());
        }
        o
    });

    // ---------------- consumer thread
    let consumer = std::thread::spawn(move || {
        let mut o = ConsumerOut::default();
        let mut body = Some(Box::pin(body));
        let mut wk = new_w();
        let mut all_w = vec![wk.clone()];
        let mut polls = 0usize;
        let mut spurious_left = spurious_budget;
        let mut extra_left = overpoll;
        loop {
            if polls >= 400 {
                o.too_many_polls = true;
                break;
            }
            if body_drop_at == Some(polls as u32) && o.terminal.is_none() {
                drop(body.take());
                BODY_DROPPED.store(true, SeqCst);
                o.body_dropped = true;
                break;
            }
            let b = body.as_mut().unwrap();
            let writer_gone_before = WRITER_GONE.load(SeqCst);
            let abort_done_before = ABORT_DONE.load(SeqCst);
            let h = b.size_hint();
            let eos = b.is_end_stream();
            let sample = Sample { lower: h.lower(), upper: h.upper(), eos, writer_gone_before, abort_done_before };
            let after = o.terminal.is_some();
            if after {
                if extra_left == 0 {
                    break;
                }
                extra_left -= 1;
            }
            if *fresh.get(polls).unwrap_or(&false) {
                wk = new_w();
                all_w.push(wk.clone());
                o.fresh += 1;
            }
            // Only a wake that lands after this poll has started counts for the park.
            *wk.m.lock().unwrap() = false;
            let waker = Waker::from(wk.clone());
            let mut cx = Context::from_waker(&waker);
            let r = b.as_mut().poll_frame(&mut cx);
            polls += 1;
            if writer_gone_before {
                o.polls_after_writer_gone += 1;
            }
            let step = match r {
                Poll::Pending => Step::Pending,
                Poll::Ready(None) => Step::End,
                Poll::Ready(Some(Err(e))) => Step::Err(e.to_string()),
                Poll::Ready(Some(Ok(f))) => match f.into_data() {
                    Ok(d) => {
                        if !after {
                            o.delivered.extend_from_slice(&d);
                        }
                        Step::Data(d.len())
                    }
                    Err(_) => Step::Err("trailers".into()),
                },
            };
            let idx = o.steps.len();
            o.steps.push((sample, step.clone()));
            match step {
                Step::Data(_) => {}
                Step::End | Step::Err(_) => {
                    if o.terminal.is_none() {
                        o.terminal = Some(idx);
                    }
                }
                Step::Pending => {
                    if after {
                        continue;
                    }
                    if spurious_left > 0 && *spurious_at.get(polls).unwrap_or(&false) {
                        spurious_left -= 1;
                        o.spurious += 1;
                        std::thread::yield_now();
                        continue;
                    }
                    o.parked += 1;
                    // Park until the waker handed to the most recent poll fires.
                    let mut g = wk.m.lock().unwrap();
                    while !*g {
                        g = wk.c.wait(g).unwrap();
                    }
                }
            }
        }
        drop(body.take());
        o.wakes = all_w.iter().map(|w| w.wakes.load(SeqCst)).sum();
        o
    });

    let p = match producer.join() {
        Ok(p) => p,
        Err(e) => oracle(focus, "panic", format!("producer thread panicked: {}", panic_text(e))),
    };
    let c = match consumer.join() {
        Ok(c) => c,
        Err(e) => oracle(focus, "panic", format!("consumer thread panicked: {}", panic_text(e))),
    };

    let kinds: Vec<String> = c.steps.iter().map(|s| format!("{:?}", s.1)).collect();
    let mut sig = mix(chunk as u64, is_gzip as u64);
    for o in &p.ops {
        sig = mix(sig, o.len() as u64 ^ (o.as_bytes()[0] as u64) << 32);
    }
    for s in &c.steps {
        sig = mix(sig, match &s.1 { Step::Pending => 1, Step::Data(n) => 2 + ((*n as u64) << 8), Step::End => 3, Step::Err(_) => 4 } ^ (s.0.eos as u64) << 4 ^ (s.0.writer_gone_before as u64) << 5);
    }
    println!("SIG {sig:016x}");
    println!(
        "STAT runs=1 polls={} parked={} spurious={} fresh_wakers={} wakes={} frames={} aborts={} body_drops={} gzip={} producer_panics={} accepted_bytes={}",
        c.steps.len(), c.parked, c.spurious, c.fresh, c.wakes, c.steps.iter().filter(|s| matches!(s.1, Step::Data(_))).count(),
        p.aborted as u32, c.body_dropped as u32, is_gzip as u32, prog.contains(&POp::Panic) as u32, p.accepted.len()
    );
    let describe = || format!("chunk={chunk} gzip={is_gzip} program={prog:?}; producer ops {:?}; consumer polls {:?}", p.ops, kinds);

    let clean = matches!(c.terminal.map(|i| &c.steps[i].1), Some(Step::End));
    let errored = matches!(c.terminal.map(|i| &c.steps[i].1), Some(Step::Err(_)));
    let panicked = prog.contains(&POp::Panic);
    let decoded = |raw: &[u8]| -> (Vec<u8>, inflate::GzState) {
        if is_gzip {
            inflate::gunzip_prefix(raw)
        } else {
            (raw.to_vec(), inflate::GzState::Streaming)
        }
    };
    match focus {
        "C10" => {
            if c.too_many_polls || c.polls_after_writer_gone > c.steps.len().min(64) + 8 {
                oracle("C10", "unbounded-polls", describe());
            }
            if !c.body_dropped {
                if c.terminal.is_none() {
                    oracle("C10", "no-terminal-event", describe());
                }
                if !p.aborted && !panicked {
                    if !clean {
                        oracle("C10", "no-clean-end", describe());
                    }
                    let (dec, gs) = decoded(&c.delivered);
                    if is_gzip && gs != (inflate::GzState::Complete { trailing: 0 }) {
                        oracle("C10", "gzip-incomplete", format!("{gs:?}; {}", describe()));
                    }
                    if dec != p.accepted {
                        oracle("C10", "delivered-differs-from-written", format!("accepted {} bytes, received {}; {}", p.accepted.len(), dec.len(), describe()));
                    }
                } else if p.aborted && clean {
                    oracle("C10", "abort-ended-cleanly", describe());
                }
            }
        }
        "C11" => {
            if let Some((code, m)) = &p.finding {
                oracle("C11", code, format!("{m}; {}", describe()));
            }
            if p.aborted && !c.body_dropped {
                if clean {
                    oracle("C11", "abort-ended-cleanly", describe());
                }
                if !errored {
                    oracle("C11", "abort-not-reported", describe());
                }
                let term = c.terminal.unwrap();
                for i in 0..=term {
                    if c.steps[i].0.abort_done_before && c.steps[i].0.eos {
                        oracle("C11", "end-of-stream-claimed-while-error-pending", format!("before poll #{}; {}", i + 1, describe()));
                    }
                }
                let (dec, gs) = decoded(&c.delivered);
                if let inflate::GzState::Invalid(e) = gs {
                    oracle("C11", "abort-garbled-prefix", format!("{e}; {}", describe()));
                }
                if !p.accepted.starts_with(&dec) {
                    oracle("C11", "abort-delivered-not-prefix", describe());
                }
            }
        }
        "C08" | "C09" => {
            if !(c.body_dropped || p.aborted || panicked) {
                if !clean {
                    oracle(focus, "no-clean-end", describe());
                }
                let (dec, gs) = decoded(&c.delivered);
                if is_gzip && gs != (inflate::GzState::Complete { trailing: 0 }) {
                    oracle(focus, "not-one-gzip-member", format!("{gs:?}; {}", describe()));
                }
                if dec != p.accepted {
                    oracle(focus, "delivered-differs-from-accepted", format!("accepted {} bytes, client decoded {}; {}", p.accepted.len(), dec.len(), describe()));
                }
                if c.steps.iter().take(c.terminal.unwrap_or(0)).any(|s| s.1 == Step::Data(0)) {
                    oracle(focus, "empty-frame", describe());
                }
            }
        }
        "C20" => {
            if let Some(term) = c.terminal {
                for (k, (_, s)) in c.steps.iter().enumerate().skip(term + 1) {
                    if let Step::Data(n) = s {
                        if *n > 0 {
                            oracle("C20", "data-after-termination", format!("poll #{} after the terminal event returned {n} bytes; {}", k - term, describe()));
                        }
                    }
                }
            }
        }
        "C12" => {
            let mut eos_at = None;
            for (i, (s, st)) in c.steps.iter().enumerate() {
                if s.eos && eos_at.is_none() {
                    eos_at = Some(i);
                }
                if let Some(j) = eos_at {
                    match st {
                        Step::Data(n) if *n > 0 => oracle("C12", "data-after-end-of-stream", format!("is_end_stream() was true before poll #{} but poll #{} returned {n} bytes; {}", j + 1, i + 1, describe())),
                        Step::Err(e) => oracle("C12", "error-after-end-of-stream", format!("is_end_stream() was true before poll #{} but poll #{} returned error {e}; {}", j + 1, i + 1, describe())),
                        _ => {}
                    }
                }
            }
            if clean {
                let end = c.terminal.unwrap();
                let mut remaining: u64 = c.steps.iter().take(end).map(|s| if let Step::Data(n) = s.1 { n as u64 } else { 0 }).sum();
                for (i, (s, st)) in c.steps.iter().enumerate().take(end + 1) {
                    if s.lower > remaining {
                        oracle("C12", "lower-bound-too-high", format!("before poll #{} lower bound {} but only {remaining} bytes followed; {}", i + 1, s.lower, describe()));
                    }
                    if let Some(u) = s.upper {
                        if u < remaining {
                            oracle("C12", "upper-bound-too-low", format!("before poll #{} upper bound {u} but {remaining} bytes followed; {}", i + 1, describe()));
                        }
                    }
                    if i < end {
                        if let Step::Data(n) = st {
                            remaining -= *n as u64;
                        }
                    }
                }
            }
        }
        _ => {}
    }
    println!("OK");
}

struct WriterGoneOnDrop;
impl Drop for WriterGoneOnDrop {
    fn drop(&mut self) {
        WRITER_GONE.store(true, SeqCst);
    }
}

fn panic_text(e: Box<dyn std::any::Any + Send>) -> String {
    if let Some(s) = e.downcast_ref::<&str>() {
        s.to_string()
    } else if let Some(s) = e.downcast_ref::<String>() {
        s.clone()
    } else {
        "<non-string panic>".into()
    }
}

// ------------------------------------------------------------------ scenario 2: files
//
// Several threads use one `ChunkedReadFile` (shared through an `Arc`) at the same time: metadata,
// direct streams and `serve()` responses. Whatever the instance keeps across calls (today: nothing
// but the descriptor) is raced at instruction granularity.

/// A cloneable error type, so that `ChunkedReadFile: Clone` (derived, needs `E: Clone`) is available.
#[derive(Clone, Debug)]
struct MErr(String);
impl std::fmt::Display for MErr {
    fn fmt(&self, f: &mut std::fmt::Formatter<'_>) -> std::fmt::Result {
        f.write_str(&self.0)
    }
}
impl std::error::Error for MErr {}
impl From<BoxErr> for MErr {
    fn from(e: BoxErr) -> Self {
        MErr(e.to_string())
    }
}
type Crf = http_serve::ChunkedReadFile<bytes::Bytes, MErr>;

fn drain_stream(mut s: Pin<Box<dyn futures_core::Stream<Item = Result<bytes::Bytes, MErr>> + Send + Sync>>) -> Result<Vec<u8>, String> {
    let w = Waker::noop();
    let mut cx = Context::from_waker(w);
    let mut out = Vec::new();
    for _ in 0..100_000 {
        match s.as_mut().poll_next(&mut cx) {
            Poll::Ready(Some(Ok(d))) => {
                if d.is_empty() {
                    return Err("empty chunk".into());
                }
                out.extend_from_slice(&d);
            }
            Poll::Ready(Some(Err(e))) => return Err(format!("error: {e}")),
            Poll::Ready(None) => return Ok(out),
            Poll::Pending => std::thread::yield_now(),
        }
    }
    Err("stream did not end within 100000 polls".into())
}

fn drain_body(mut b: Pin<Box<http_serve::Body<bytes::Bytes, MErr>>>) -> Result<Vec<u8>, String> {
    let w = Waker::noop();
    let mut cx = Context::from_waker(w);
    let mut out = Vec::new();
    for _ in 0..100_000 {
        match b.as_mut().poll_frame(&mut cx) {
            Poll::Ready(Some(Ok(f))) => {
                if let Ok(d) = f.into_data() {
                    out.extend_from_slice(&d);
                }
            }
            Poll::Ready(Some(Err(e))) => return Err(format!("error: {e}")),
            Poll::Ready(None) => return Ok(out),
            Poll::Pending => std::thread::yield_now(),
        }
    }
    Err("body did not end within 100000 polls".into())
}

#[derive(Clone, Debug)]
enum FOp {
    Etag,
    Meta,
    Stream(u64, u64),
    Serve(u64, u64),
    ServeHead,
}

fn files(focus: &str, t: &mut Tape, unique: u64) {
    use http_serve::Entity;
    // Mostly small files: every byte costs interpreter time. One size class crosses the 64 KiB read size.
    let len = [0u64, 1, 5, 100, 700, 4097, 9000, 65_537][t.draw(8) as usize];
    let cseed = t.draw(u32::MAX) as u64;
    let nthreads = 2 + t.draw(2) as usize;
    let mut progs: Vec<Vec<FOp>> = Vec::new();
    for _ in 0..nthreads {
        let n = 1 + t.draw(3);
        let mut p = Vec::new();
        for _ in 0..n {
            let a = if len == 0 { 0 } else { t.draw(len as u32) as u64 };
            let b = if len == 0 { 0 } else { a + 1 + t.draw((len - a) as u32).min(300) as u64 };
            let b = b.min(len);
            p.push(match t.draw(6) {
                0 => FOp::Etag,
                1 => FOp::Meta,
                2 | 3 => FOp::Stream(a, b),
                4 => FOp::Serve(a, b),
                _ => FOp::ServeHead,
            });
        }
        progs.push(p);
    }
    println!("TAPE {}", t.vals.iter().map(|v| v.to_string()).collect::<Vec<_>>().join(","));
    println!("CONFIG scenario=files focus={focus} len={len} threads={nthreads} programs={progs:?}");
    let content: Arc<Vec<u8>> = Arc::new((0..len).map(|i| (i.wrapping_mul(31).wrapping_add(cseed) >> 3) as u8 ^ (i >> 11) as u8).collect());
    let dir = std::env::args().collect::<Vec<_>>().windows(2).find(|w| w[0] == "--dir").map(|w| w[1].clone()).unwrap_or_else(|| std::env::temp_dir().to_string_lossy().into_owned());
    // `unique` is host entropy (isolation is off in this scenario); it only names the scratch file.
    let path = format!("{dir}/msim-{}-{unique:016x}.bin", std::process::id());
    std::fs::write(&path, &content[..]).expect("write scratch file");
    let f = std::fs::File::open(&path).expect("open scratch file");
    let _ = std::fs::remove_file(&path);
    let crf: Arc<Crf> = Arc::new(http_serve::ChunkedReadFile::new(f, http::HeaderMap::new()).expect("regular file"));
    let mut hs = Vec::new();
    for (ti, prog) in progs.iter().cloned().enumerate() {
        let crf = crf.clone();
        let content = content.clone();
        hs.push(std::thread::spawn(move || -> Vec<String> {
            let mut etags = Vec::new();
            for op in prog {
                match op {
                    FOp::Etag => etags.push(format!("{:?}", crf.etag())),
                    FOp::Meta => {
                        if crf.len() != content.len() as u64 {
                            oracle("C18", "length-differs", format!("thread {ti}: len() = {} for a {}-byte file", crf.len(), content.len()));
                        }
                        let _ = crf.last_modified();
                    }
                    FOp::Stream(a, b) => match drain_stream(crf.get_range(a..b)) {
                        Ok(v) => {
                            if v != content[a as usize..b as usize] {
                                oracle("C18", "wrong-bytes", format!("thread {ti}: get_range({a}..{b}) yielded {} bytes that differ from the file's", v.len()));
                            }
                        }
                        Err(e) => oracle("C18", "stream-failed", format!("thread {ti}: get_range({a}..{b}) on an unmodified file: {e}")),
                    },
                    FOp::Serve(a, b) => {
                        let mut rb = http::Request::get("/f");
                        if b > a {
                            rb = rb.header("range", format!("bytes={a}-{}", b - 1));
                        }
                        let resp = http_serve::serve((*crf).clone(), &rb.body(()).unwrap());
                        let st = resp.status().as_u16();
                        let et = format!("{:?}", resp.headers().get("etag").cloned());
                        etags.push(et);
                        let want: &[u8] = if b > a { &content[a as usize..b as usize] } else { &content[..] };
                        let want_status = if b > a { 206 } else { 200 };
                        if st != want_status {
                            oracle("C02", "status", format!("thread {ti}: bytes={a}-{} on a {}-byte file answered {st}", b.wrapping_sub(1), content.len()));
                        }
                        match drain_body(Box::pin(resp.into_body())) {
                            Ok(v) => {
                                if v != want {
                                    oracle("C02", "wrong-bytes", format!("thread {ti}: serve() bytes={a}-{} delivered {} bytes that differ from the file's", b.wrapping_sub(1), v.len()));
                                }
                            }
                            Err(e) => oracle("C02", "body-failed", format!("thread {ti}: {e}")),
                        }
                    }
                    FOp::ServeHead => {
                        let resp = http_serve::serve((*crf).clone(), &http::Request::head("/f").body(()).unwrap());
                        etags.push(format!("{:?}", resp.headers().get("etag").cloned()));
                        if resp.status().as_u16() != 200 {
                            oracle("C13", "status", format!("thread {ti}: HEAD answered {}", resp.status()));
                        }
                    }
                }
            }
            etags
        }));
    }
    let mut all: Vec<String> = Vec::new();
    for h in hs {
        match h.join() {
            Ok(v) => all.extend(v),
            Err(e) => oracle(focus, "panic", format!("a thread using the shared ChunkedReadFile panicked: {}", panic_text(e))),
        }
    }
    let main_tag = format!("{:?}", crf.etag());
    for e in &all {
        if *e != main_tag {
            oracle("C18", "etag-differs-between-threads", format!("{e} vs {main_tag}"));
        }
    }
    let mut sig = mix(len, nthreads as u64);
    for p in &progs {
        for o in p {
            sig = mix(sig, match o { FOp::Etag => 1, FOp::Meta => 2, FOp::Stream(a, b) => 3 ^ a << 8 ^ b << 32, FOp::Serve(a, b) => 4 ^ a << 8 ^ b << 32, FOp::ServeHead => 5 });
        }
    }
    println!("SIG {sig:016x}");
    println!("STAT runs=1 threads={nthreads} file_ops={} etags_compared={}", progs.iter().map(|p| p.len()).sum::<usize>(), all.len());
    println!("OK");
}

fn main() {
    let entropy = std::collections::hash_map::RandomState::new().build_hasher().finish();
    let args: Vec<String> = std::env::args().collect();
    let scenario = args.get(1).map(|s| s.as_str()).unwrap_or("chunker");
    let focus = args.get(2).map(|s| s.as_str()).unwrap_or("C10").to_string();
    let val = |name: &str| args.iter().position(|a| a == name).and_then(|i| args.get(i + 1)).cloned();
    let mut tape = if let Some(t) = val("--tape") {
        Tape::replay(t.split(',').filter(|s| !s.is_empty()).map(|s| s.parse().unwrap_or(0)).collect())
    } else if let Some(w) = val("--wseed") {
        Tape::search(w.parse().unwrap_or(0))
    } else {
        Tape::search(entropy)
    };
    match scenario {
        "chunker" => chunker(&focus, &mut tape),
        "files" => files(&focus, &mut tape, entropy),
        _ => {
            eprintln!("usage: msim chunker|files <focus> [--tape a,b,c | --wseed N]");
            std::process::exit(2);
        }
    }
}
