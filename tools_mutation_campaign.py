#!/usr/bin/env python3
"""Systematic sensitivity measurement: small syntactic mutations of /repo/src, in scratch copies.

  tools_mutation_campaign.py gen                  write <scratch>/mutants.jsonl
  tools_mutation_campaign.py run N [K]            worker K of N (default 0 of 1): process its share
  tools_mutation_campaign.py report               summarise <scratch>/results.*.jsonl into
                                                  /verif/mutants/CAMPAIGN.md + CAMPAIGN.survivors.jsonl

Every mutant is one changed line. Stages: (1) `cargo build` of the mutated crate - a mutant that does
not compile is "stillborn"; (2) the repository's own 35-test suite - a mutant it notices is
"killed-by-suite" (the checks are not needed for it); (3) the simulator, rebuilt against the mutated
crate, runs the quick tier of the checks relevant to the mutated file until one reports a violation
("reported-by <check>"); a mutant that no relevant check reports is a "survivor" and is listed for
inspection (equivalent mutant, change outside every claimed property, or a gap).

Nothing here touches /repo or /verif/sim: each worker has a git worktree of /repo and a copy of
/verif/sim under <scratch> (default /root/scratch/mut), removed by `clean`.
"""
import json, os, re, subprocess, sys, shutil, time, hashlib

SCRATCH = os.environ.get("MUT_SCRATCH", "/root/scratch/mut")
FILES = ["body.rs", "chunker.rs", "etag.rs", "file.rs", "gzip.rs", "lib.rs", "platform.rs", "range.rs", "serving.rs"]
RELEVANT = {
    "chunker.rs": ["C08", "C10", "C11", "C12", "C20", "C09", "C17"],
    "gzip.rs": ["C09", "C11", "C17", "C08", "C10", "C20", "C12"],
    "lib.rs": ["C17", "C15", "C09", "C08", "C11", "C13", "C01"],
    "serving.rs": ["C01", "C02", "C06", "C07", "C14", "C15", "C13", "C12", "C20"],
    "body.rs": ["C07", "C01", "C12", "C20", "C02", "C06", "C15", "C13"],
    "range.rs": ["C02", "C06", "C13", "C01", "C14", "C15"],
    "etag.rs": ["C14", "C13", "C15", "C01"],
    "file.rs": ["C18", "C02", "C20", "C12", "C13"],
    "platform.rs": ["C18", "C02"],
}
ENV = dict(os.environ, CARGO_NET_OFFLINE="true")


def mask(line):
    """Blank out string/char literals and trailing comments (same length)."""
    out = []
    i = 0
    n = len(line)
    while i < n:
        c = line[i]
        if line.startswith("//", i):
            out.append(" " * (n - i))
            break
        if c == '"':
            j = i + 1
            while j < n and line[j] != '"':
                j += 2 if line[j] == "\\" else 1
            out.append('"' + " " * (min(j, n - 1) - i - 1) + '"')
            i = min(j, n - 1) + 1
            continue
        if c == "'" and i + 2 < n and (line[i + 2] == "'" or (line[i + 1] == "\\" and i + 3 < n and line[i + 3] == "'")):
            k = i + 2 if line[i + 2] == "'" else i + 3
            out.append("'" + " " * (k - i - 1) + "'")
            i = k + 1
            continue
        out.append(c)
        i += 1
    return "".join(out)


SUBS = [
    (r" < ", " <= "), (r" <= ", " < "), (r" > ", " >= "), (r" >= ", " > "), (r" == ", " != "), (r" != ", " == "),
    (r" \+ ", " - "), (r" - ", " + "), (r" \+= ", " -= "), (r" -= ", " += "), (r" \* ", " / "),
    (r" && ", " || "), (r" \|\| ", " && "),
    (r"\btrue\b", "false"), (r"\bfalse\b", "true"),
    (r"\bif !", "if "), (r"\bwhile !", "while "),
    (r"\.min\(", ".max("), (r"\.max\(", ".min("),
    (r"\bcontinue;", "break;"),
    (r"\.saturating_add\(", ".wrapping_add("), (r"\.saturating_sub\(", ".wrapping_sub("),
    (r"\.checked_add\(", ".checked_sub("), (r"\.checked_sub\(", ".checked_add("),
    (r"\.is_some\(\)", ".is_none()"), (r"\.is_none\(\)", ".is_some()"),
    (r"\.is_empty\(\)", ".is_empty() == false"),
    (r"\.push_back\(", ".push_front("), (r"\.pop_front\(\)", ".pop_back()"),
    (r" << ", " >> "), (r" >> ", " << "), (r" & ", " | "), (r" \| ", " & "),
]
INT = re.compile(r"(?<![\w.\"'#])(\d[\d_]*)(?![\w.\"'])")
STMT = re.compile(r"^\s*(?=\S)(?!let |return|break|continue|use |pub |fn |#|//|\}|\{|if |else|match |for |while |loop|impl|struct|enum|type |const |static |mod |debug_assert|assert|unreachable|panic)[^=]*?(\(.*\)|[+\-]?= .*);\s*$")


def pristine(f):
    """The committed source (the working tree of /repo may be patched by another self-test)."""
    return subprocess.check_output(["git", "-C", "/repo", "show", f"HEAD:src/{f}"]).decode()


def gen():
    os.makedirs(SCRATCH, exist_ok=True)
    out = []
    for f in FILES:
        lines = pristine(f).split("\n")
        in_tests = False
        skip_next = False
        for ln, line in enumerate(lines):
            # Windows-only code is not compiled here.
            if f == "platform.rs" and (68 <= ln + 1 <= 145 or ln + 1 >= 162):
                continue
            if "#[cfg(test)]" in line:
                in_tests = True
            if in_tests:
                continue
            s = line.strip()
            if skip_next:
                skip_next = False
                continue
            if 'feature = "verif-hooks"' in line:
                skip_next = True
                continue
            if not s or s.startswith("//") or s.startswith("#[") or s.startswith("use ") or "crate::verif" in line:
                continue
            m = mask(line)
            cands = []
            for pat, rep in SUBS:
                for mt in re.finditer(pat, m):
                    new = line[: mt.start()] + re.sub(pat, rep.replace("\\", "\\\\"), line[mt.start() : mt.end()]) + line[mt.end() :]
                    cands.append((f"{pat.strip()}->{rep.strip()}", new))
            for mt in INT.finditer(m):
                tok = mt.group(1)
                try:
                    v = int(tok.replace("_", ""))
                except ValueError:
                    continue
                for nv in {v + 1, max(v - 1, 0), 0} - {v}:
                    cands.append((f"int {v}->{nv}", line[: mt.start(1)] + str(nv) + line[mt.end(1) :]))
            if STMT.match(m) and m.count("(") == m.count(")"):
                cands.append(("delete-statement", re.match(r"^\s*", line).group(0) + "{}" if False else re.match(r"^\s*", line).group(0) + "();"))
            for op, new in cands:
                if new == line:
                    continue
                mid = hashlib.sha1(f"{f}:{ln}:{op}:{new}".encode()).hexdigest()[:10]
                out.append({"id": mid, "file": f, "line": ln + 1, "op": op, "before": line.strip(), "after": new.strip(), "new": new})
    # de-duplicate
    seen = set()
    uniq = []
    for m in out:
        k = (m["file"], m["line"], m["new"])
        if k not in seen:
            seen.add(k)
            uniq.append(m)
    with open(f"{SCRATCH}/mutants.jsonl", "w") as fh:
        for m in uniq:
            fh.write(json.dumps(m) + "\n")
    per = {}
    for m in uniq:
        per[m["file"]] = per.get(m["file"], 0) + 1
    print(len(uniq), "mutants", per)


def sh(cmd, cwd, timeout, env=None):
    try:
        p = subprocess.run(cmd, cwd=cwd, env=env or ENV, stdout=subprocess.PIPE, stderr=subprocess.STDOUT, timeout=timeout)
        return p.returncode, p.stdout.decode(errors="replace")
    except subprocess.TimeoutExpired as e:
        return 124, (e.stdout or b"").decode(errors="replace") + "\nTIMEOUT"


def setup_worker(k):
    w = f"{SCRATCH}/w{k}"
    if not os.path.exists(f"{w}/repo"):
        os.makedirs(w, exist_ok=True)
        subprocess.check_call(["git", "-C", "/repo", "worktree", "add", "--detach", f"{w}/repo", "HEAD"], stdout=subprocess.DEVNULL, stderr=subprocess.DEVNULL)
        if os.path.exists("/repo/target"):
            subprocess.call(["cp", "-r", "/repo/target", f"{w}/repo/target"])
    if not os.path.exists(f"{w}/sim"):
        os.makedirs(f"{w}/sim")
        for item in ["src", "Cargo.lock", ".cargo"]:
            subprocess.check_call(["cp", "-r", f"/verif/sim/{item}", f"{w}/sim/{item}"])
        t = open("/verif/sim/Cargo.toml").read().replace('path = "/repo"', f'path = "{w}/repo"')
        open(f"{w}/sim/Cargo.toml", "w").write(t)
        subprocess.call(["cp", "-r", "/verif/sim/target", f"{w}/sim/target"])
        os.makedirs(f"{w}/verif/replays", exist_ok=True)
        shutil.copy("/verif/known_findings.json", f"{w}/verif/known_findings.json")
    return w


def run(n, k):
    w = setup_worker(k)
    muts = [json.loads(l) for l in open(f"{SCRATCH}/mutants.jsonl")]
    done = set()
    resf = f"{SCRATCH}/results.{k}.jsonl"
    if os.path.exists(resf):
        done = {json.loads(l)["id"] for l in open(resf)}
    only = os.environ.get("MUT_FILES")
    scale = os.environ.get("MUT_SCALE", "0.5")
    for i, m in enumerate(muts):
        if i % n != k or m["id"] in done:
            continue
        if only and m["file"] not in only.split(","):
            continue
        path = f"{w}/repo/src/{m['file']}"
        orig = pristine(m["file"])
        lines = orig.split("\n")
        assert lines[m["line"] - 1].strip() == m["before"], (m, lines[m["line"] - 1])
        lines[m["line"] - 1] = m["new"]
        open(path, "w").write("\n".join(lines))
        t0 = time.time()
        res = dict(id=m["id"], file=m["file"], line=m["line"], op=m["op"], before=m["before"], after=m["after"])
        try:
            code, out = sh(["cargo", "build", "--offline", "--features", "verif-hooks"], f"{w}/repo", 600)
            if code != 0:
                res["status"] = "stillborn"
                continue
            code, out = sh(["cargo", "test", "--offline", "--workspace", "--no-fail-fast"], f"{w}/repo", 900)
            if code != 0:
                res["status"] = "killed-by-suite"
                continue
            code, out = sh(["cargo", "build", "--profile", "release", "--offline"], f"{w}/sim", 1200)
            if code != 0:
                res["status"] = "sim-build-failed"
                res["detail"] = out[-400:]
                continue
            env = dict(ENV, VERIF_DIR=f"{w}/verif", VERIF_EVIDENCE_DIR=f"{w}/verif/evidence", VERIF_REPO=f"{w}/repo", VERIF_SCALE=scale, VERIF_HANG_MS="8000")
            res["status"] = "survivor"
            res["checked"] = []
            for p in RELEVANT[m["file"]]:
                code, out = sh([f"{w}/sim/target/release/sim", "check", p, "--tier", "quick"], f"{w}/sim", 900, env)
                res["checked"].append(p)
                if code == 1:
                    v = [l for l in out.split("\n") if l.startswith("violation:")]
                    res["status"] = "reported"
                    res["by"] = p
                    res["violation"] = (v[0] if v else "")[:200]
                    break
                if code != 0:
                    res["status"] = "harness-error"
                    res["by"] = p
                    res["detail"] = out[-400:]
                    break
        finally:
            open(path, "w").write(orig)
            res["secs"] = round(time.time() - t0, 1)
            with open(resf, "a") as fh:
                fh.write(json.dumps(res) + "\n")
            print(k, i, m["file"], m["line"], m["op"], res.get("status"), res.get("by", ""), res["secs"], flush=True)
            shutil.rmtree(f"{w}/verif/replays", ignore_errors=True)
            os.makedirs(f"{w}/verif/replays", exist_ok=True)


def report():
    rs = {}
    for f in os.listdir(SCRATCH):
        if f.startswith("results.") and f.endswith(".jsonl"):
            for l in open(f"{SCRATCH}/{f}"):
                r = json.loads(l)
                rs[r["id"]] = r
    tot = {}
    for r in rs.values():
        key = (r["file"], r["status"])
        tot[key] = tot.get(key, 0) + 1
    files = sorted({k[0] for k in tot})
    sts = ["stillborn", "killed-by-suite", "reported", "survivor", "harness-error", "sim-build-failed"]
    lines = ["| file | " + " | ".join(sts) + " |", "|---|" + "---|" * len(sts)]
    for f in files:
        lines.append(f"| {f} | " + " | ".join(str(tot.get((f, s), 0)) for s in sts) + " |")
    lines.append("| **all** | " + " | ".join(str(sum(tot.get((f, s), 0) for f in files)) for s in sts) + " |")
    by = {}
    for r in rs.values():
        if r["status"] == "reported":
            by[r["by"]] = by.get(r["by"], 0) + 1
    txt = "\n".join(lines) + "\n\nreported by (first relevant check that noticed): " + ", ".join(f"{k}: {v}" for k, v in sorted(by.items())) + "\n"
    print(txt)
    surv = [r for r in rs.values() if r["status"] in ("survivor", "harness-error", "sim-build-failed")]
    surv.sort(key=lambda r: (r["file"], r["line"]))
    for r in surv:
        print(f"{r['status']:9} {r['file']}:{r['line']} [{r['op']}]  {r['before']}  ==>  {r['after']}")
    return txt, surv


if __name__ == "__main__":
    cmd = sys.argv[1]
    if cmd == "gen":
        gen()
    elif cmd == "run":
        n = int(sys.argv[2])
        k = int(sys.argv[3]) if len(sys.argv) > 3 else 0
        run(n, k)
    elif cmd == "report":
        report()
    elif cmd == "clean":
        for d in os.listdir(SCRATCH):
            if d.startswith("w") and os.path.isdir(f"{SCRATCH}/{d}/repo"):
                subprocess.call(["git", "-C", "/repo", "worktree", "remove", "--force", f"{SCRATCH}/{d}/repo"])
        subprocess.call(["git", "-C", "/repo", "worktree", "prune"])
        shutil.rmtree(SCRATCH, ignore_errors=True)
