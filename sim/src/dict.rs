//! Dictionary of "interesting" integers mined from the source under test: every integer literal in
//! /repo/src/*.rs (decimal or hex, underscores allowed, simple `a << b` shifts and `a * b` products), each with its
//! neighbours +-1. The generators mix these into lengths, positions, chunk sizes, write sizes and
//! file sizes, so that a threshold introduced by a change (512, 32, 1 << 32, ...) is hit on
//! purpose rather than by luck. The same tree always yields the same dictionary.

use std::collections::BTreeSet;
use std::sync::OnceLock;

static DICT: OnceLock<Vec<u64>> = OnceLock::new();

fn scan(text: &str, out: &mut BTreeSet<u64>) {
    let b = text.as_bytes();
    let mut i = 0;
    let mut last_num: Option<(u64, usize)> = None; // (value, end index) for shift detection
    while i < b.len() {
        let c = b[i];
        let prev_ident = i > 0 && (b[i - 1].is_ascii_alphanumeric() || b[i - 1] == b'_' || b[i - 1] == b'.');
        if c.is_ascii_digit() && !prev_ident {
            let start = i;
            let mut v: u128 = 0;
            let mut ok = true;
            if c == b'0' && i + 1 < b.len() && (b[i + 1] == b'x' || b[i + 1] == b'X') {
                i += 2;
                while i < b.len() && (b[i].is_ascii_hexdigit() || b[i] == b'_') {
                    if b[i] != b'_' {
                        v = v.saturating_mul(16).saturating_add((b[i] as char).to_digit(16).unwrap() as u128);
                    }
                    i += 1;
                }
            } else {
                while i < b.len() && (b[i].is_ascii_digit() || b[i] == b'_') {
                    if b[i] != b'_' {
                        v = v.saturating_mul(10).saturating_add((b[i] - b'0') as u128);
                    }
                    i += 1;
                }
                // floats / version-like tokens are not integers
                if i < b.len() && b[i] == b'.' && i + 1 < b.len() && b[i + 1].is_ascii_digit() {
                    ok = false;
                }
            }
            // skip a type suffix
            while i < b.len() && (b[i].is_ascii_alphanumeric() || b[i] == b'_') {
                i += 1;
            }
            if ok && v <= u64::MAX as u128 {
                let v = v as u64;
                // `a << b`
                if let Some((a, end)) = last_num {
                    let between = text[end..start].trim();
                    if between == "<<" && v < 64 {
                        if let Some(s) = a.checked_shl(v as u32) {
                            out.insert(s);
                        }
                    }
                    // `a * b` (16 * 1024, ...)
                    if between == "*" {
                        if let Some(s) = a.checked_mul(v) {
                            out.insert(s);
                        }
                    }
                }
                out.insert(v);
                last_num = Some((v, i));
            }
            continue;
        }
        i += 1;
    }
}

pub fn dict() -> &'static [u64] {
    DICT.get_or_init(|| {
        let mut lits = BTreeSet::new();
        let dir = std::env::var("VERIF_REPO").unwrap_or_else(|_| "/repo".into());
        if let Ok(rd) = std::fs::read_dir(format!("{dir}/src")) {
            let mut files: Vec<_> = rd.flatten().map(|e| e.path()).filter(|p| p.extension().map(|e| e == "rs").unwrap_or(false)).collect();
            files.sort();
            for f in files {
                if f.file_name().map(|n| n == "verif.rs").unwrap_or(false) {
                    continue;
                }
                if let Ok(t) = std::fs::read_to_string(&f) {
                    // Tests inside the crate mention many incidental numbers; stop at the test module.
                    let t = t.split("#[cfg(test)]").next().unwrap_or("").to_string();
                    // Comments are prose, not thresholds.
                    let code: String = t.lines().map(|l| l.split("//").next().unwrap_or("")).collect::<Vec<_>>().join("\n");
                    scan(&code, &mut lits);
                }
            }
        }
        let mut all = BTreeSet::new();
        for v in lits {
            if v < 3 {
                continue;
            }
            all.insert(v);
            all.insert(v - 1);
            if v < u64::MAX {
                all.insert(v + 1);
            }
        }
        all.into_iter().take(600).collect()
    })
}

/// A dictionary value within `lo..=hi`, if there is one: `k` selects among the candidates.
pub fn pick_in(k: u32, lo: u64, hi: u64) -> Option<u64> {
    let d = dict();
    let a = d.partition_point(|&v| v < lo);
    let b = d.partition_point(|&v| v <= hi);
    if a >= b {
        return None;
    }
    Some(d[a + (k as usize) % (b - a)])
}

static STRS: OnceLock<Vec<String>> = OnceLock::new();

/// String dictionary: printable fragments of the string literals in the source under test (split
/// at CR / LF, format placeholders removed). Mixed into generated header values so that data can
/// collide with the protocol syntax the crate itself writes (a delimiter, a header name, a unit).
pub fn strings() -> &'static [String] {
    STRS.get_or_init(|| {
        let mut out = BTreeSet::new();
        let dir = std::env::var("VERIF_REPO").unwrap_or_else(|_| "/repo".into());
        if let Ok(rd) = std::fs::read_dir(format!("{dir}/src")) {
            let mut files: Vec<_> = rd.flatten().map(|e| e.path()).filter(|p| p.extension().map(|e| e == "rs").unwrap_or(false)).collect();
            files.sort();
            for f in files {
                if f.file_name().map(|n| n == "verif.rs").unwrap_or(false) {
                    continue;
                }
                let Ok(t) = std::fs::read_to_string(&f) else { continue };
                let t = t.split("#[cfg(test)]").next().unwrap_or("").to_string();
                for line in t.lines() {
                    let code = line.split("//").next().unwrap_or("");
                    let b = code.as_bytes();
                    let mut i = 0;
                    while i < b.len() {
                        if b[i] == b'"' {
                            let mut j = i + 1;
                            let mut s = String::new();
                            while j < b.len() && b[j] != b'"' {
                                if b[j] == b'\\' && j + 1 < b.len() {
                                    match b[j + 1] {
                                        b'r' | b'n' => s.push('\n'),
                                        b't' => s.push(' '),
                                        c => s.push(c as char),
                                    }
                                    j += 2;
                                } else {
                                    s.push(b[j] as char);
                                    j += 1;
                                }
                            }
                            for frag in s.split('\n') {
                                let frag = frag.replace("{}", "").replace("{:x}", "").replace("{:?}", "");
                                let frag = frag.trim();
                                if !frag.is_empty() && frag.len() <= 40 && frag.bytes().all(|c| (0x20..0x7f).contains(&c)) {
                                    out.insert(frag.to_string());
                                }
                            }
                            i = j + 1;
                        } else {
                            i += 1;
                        }
                    }
                }
            }
        }
        out.into_iter().take(300).collect()
    })
}
