//! Engine A — serve-sim: the real `http_serve::serve` over a simulated entity, clock and
//! consumer. Decides C01 C02 C06 C07 C12 C13 C14 C15 C20 (one focus per run).

use crate::a_drain::{drain, DrainLog, Policy, SimBody, Step};
use crate::a_req::*;
use crate::a_world::*;
use crate::core::{catch, violation, Ctx, RunOut, Violation};
use crate::mpart;
use crate::simdata::{describe_segs, Cur, Seg, SimData, SimError};
use crate::tape::{hash_str, mix, Tape};
use serde_json::json;
use std::ops::Range;
use std::sync::Arc;

thread_local! {
    static CLOCK_NS: std::cell::Cell<u128> = const { std::cell::Cell::new(0) };
    static CLOCK_READS: std::cell::Cell<u64> = const { std::cell::Cell::new(0) };
    /// The simulated clock moves by this much after every read (a clock that ticks, or steps,
    /// while serve() is running).
    static CLOCK_STEP_NS: std::cell::Cell<u128> = const { std::cell::Cell::new(0) };
}

fn install_clock() {
    http_serve::verif::set_clock(Some(Box::new(|_real| {
        CLOCK_READS.with(|c| c.set(c.get() + 1));
        let now = CLOCK_NS.with(|c| c.get());
        let step = CLOCK_STEP_NS.with(|c| c.get());
        if step > 0 {
            CLOCK_NS.with(|c| c.set((now + step).min((MAX_SECS as u128 - 1) * NS)));
        }
        to_system_time(now)
    })));
}

fn lend(ctx: &mut Ctx, world: &Arc<World>) {
    let t = std::mem::replace(&mut ctx.tape, Tape::replay(Vec::new()));
    world.st.lock().unwrap().tape = Some(t);
}

fn reclaim(ctx: &mut Ctx, world: &Arc<World>) {
    ctx.tape = world.st.lock().unwrap().tape.take().expect("tape comes back");
}

/// Everything observed about one request/response exchange.
pub struct Exchange {
    pub status: u16,
    pub headers: Vec<(String, Vec<u8>)>,
    pub serve_panic: Option<String>,
    pub log: DrainLog,
    pub calls: Vec<Range<u64>>,
    pub calls_at_serve: usize,
    pub fired: Option<Fired>,
    pub planned: Option<Fired>,
    pub fired_all: Vec<Fired>,
    pub breach: Option<String>,
    pub clock_reads: u64,
    pub policy: Policy,
}

impl Exchange {
    pub fn hdr(&self, name: &str) -> Option<&[u8]> {
        self.headers.iter().find(|h| h.0 == name).map(|h| &h.1[..])
    }
    pub fn hdr_count(&self, name: &str) -> usize {
        self.headers.iter().filter(|h| h.0 == name).count()
    }
    fn content_length(&self) -> Result<Option<u64>, String> {
        match self.hdr("content-length") {
            None => Ok(None),
            Some(v) => {
                if self.hdr_count("content-length") > 1 {
                    return Err("two Content-Length headers".into());
                }
                std::str::from_utf8(v)
                    .ok()
                    .filter(|s| !s.is_empty() && s.bytes().all(|b| b.is_ascii_digit()))
                    .and_then(|s| s.parse::<u64>().ok())
                    .map(Some)
                    .ok_or_else(|| format!("unparsable Content-Length {:?}", String::from_utf8_lossy(v)))
            }
        }
    }
    fn is_multipart(&self) -> bool {
        self.status == 206
            && self
                .hdr("content-type")
                .map(|v| v.to_ascii_lowercase().starts_with(b"multipart/byteranges"))
                .unwrap_or(false)
            && self.hdr("content-range").is_none()
    }
    fn clean_end(&self) -> bool {
        self.log.stopped_by_eos.is_some()
            || matches!(self.log.terminal.map(|i| &self.log.steps[i].1), Some(Step::End))
    }
    fn first_err(&self) -> Option<&str> {
        self.log.steps.iter().find_map(|s| match &s.1 {
            Step::Err(e) => Some(e.as_str()),
            _ => None,
        })
    }
    fn any_panic(&self) -> Option<String> {
        if let Some(p) = &self.serve_panic {
            return Some(format!("serve() panicked: {p}"));
        }
        if let Some(p) = &self.log.hint_panic {
            return Some(format!("size_hint/is_end_stream panicked: {p}"));
        }
        self.log.steps.iter().enumerate().find_map(|(i, s)| match &s.1 {
            Step::Panic(p) => Some(format!("poll #{} panicked: {p}", i + 1)),
            _ => None,
        })
    }
}

pub struct ExchangeCfg {
    pub policy: Policy,
    pub overpoll: u32,
    pub fresh_waker_p8: u32,
    pub knobs: StreamKnobs,
    pub arm_fault: bool,
    pub extra_faults: u32,
    pub clock_step_ns: u128,
}

pub fn exchange(ctx: &mut Ctx, meta: &Arc<Meta>, now_ns: u128, plan: &ReqPlan, cfg: &ExchangeCfg) -> Exchange {
    let world = World::new(now_ns);
    {
        let mut st = world.st.lock().unwrap();
        st.knobs = cfg.knobs.clone();
        st.fault_armed = cfg.arm_fault;
        st.faults_left = cfg.extra_faults;
    }
    let entity = SimEntity {
        meta: meta.clone(),
        world: world.clone(),
    };
    let req = plan.build();
    CLOCK_NS.with(|c| c.set(now_ns));
    CLOCK_READS.with(|c| c.set(0));
    CLOCK_STEP_NS.with(|c| c.set(cfg.clock_step_ns));
    install_clock();
    lend(ctx, &world);
    let served = catch(|| http_serve::serve(entity, &req));
    let mut ex = Exchange {
        status: 0,
        headers: Vec::new(),
        serve_panic: None,
        log: DrainLog::default(),
        calls: Vec::new(),
        calls_at_serve: 0,
        fired: None,
        planned: None,
        fired_all: Vec::new(),
        breach: None,
        clock_reads: CLOCK_READS.with(|c| c.get()),
        policy: cfg.policy,
    };
    match served {
        Err(p) => ex.serve_panic = Some(p),
        Ok(resp) => {
            ex.status = resp.status().as_u16();
            for (k, v) in resp.headers() {
                ex.headers.push((k.as_str().to_string(), v.as_bytes().to_vec()));
            }
            ex.calls_at_serve = world.st.lock().unwrap().calls.len();
            let mut body: std::pin::Pin<Box<SimBody>> = Box::pin(resp.into_body());
            ex.log = drain(&mut body, &world, cfg.policy, cfg.overpoll, cfg.fresh_waker_p8);
            let dropped = catch(move || drop(body));
            if let Err(p) = dropped {
                ex.log.hint_panic = Some(format!("dropping the body panicked: {p}"));
            }
        }
    }
    reclaim(ctx, &world);
    http_serve::verif::set_clock(None);
    CLOCK_STEP_NS.with(|c| c.set(0));
    let st = world.st.lock().unwrap();
    ex.calls = st.calls.clone();
    ex.fired = st.fired.clone();
    ex.planned = st.planned.clone();
    ex.fired_all = st.fired_all.clone();
    ex.breach = st.contract_breach.clone();
    let s = &mut *ctx.stats;
    s.add("polls", ex.log.steps.len() as u64);
    s.add("stream_pending_returned", st.pendings);
    s.add("stream_deferred_wakes", st.deferred);
    s.add("stream_empty_chunks", st.empty_chunks);
    s.add("stream_empty_run_chunks", st.empty_run_chunks);
    s.add("stream_chunks", st.chunks);
    s.add("consumer_fresh_wakers", ex.log.fresh_wakers);
    s.add("entity_stream_polled_after_done", st.polls_after_done);
    s.sim_time_ns += ex.log.sim_time_advanced_ns;
    if let Some(f) = &ex.fired {
        s.bump(match f.kind {
            FaultKind::EarlyEnd => "fault_early_end",
            FaultKind::Error => "fault_error",
            FaultKind::EmptyThenEnd => "fault_empty_chunks_then_end",
            FaultKind::ExtraByte => "fault_extra_byte",
            FaultKind::ExtraChunk => "fault_extra_chunk",
            FaultKind::ErrorAtEnd => "fault_error_at_end",
        });
        if f.pending_before {
            s.bump("fault_preceded_by_pending");
        }
    }
    drop(st);
    // Event hash: everything observable.
    ctx.ev("status", ex.status as u64, ex.calls.len() as u64);
    for (k, v) in &ex.headers {
        ctx.ev("hdr", hash_str(k), hash_str(&String::from_utf8_lossy(v)));
    }
    let mut h = 0u64;
    for (s, st) in &ex.log.steps {
        h = mix(h, s.lower ^ s.upper.unwrap_or(u64::MAX).rotate_left(7) ^ (s.eos as u64));
        h = mix(
            h,
            match st {
                Step::Data(n) => 1 ^ (n << 3),
                Step::Err(_) => 2,
                Step::End => 3,
                Step::Pending => 4,
                Step::Panic(_) => 5,
            },
        );
    }
    ctx.ev("steps", h, ex.log.total as u64);
    if ctx.tracing() {
        let d = plan.describe();
        ctx.note(|| format!("request: {d}"));
        let m = meta.clone();
        ctx.note(|| {
            format!(
                "entity: len={} etag={:?} mtime_ns={:?} headers={:?} clock_ns={}",
                m.len,
                m.etag.as_ref().map(|e| String::from_utf8_lossy(e).to_string()),
                m.mtime_ns,
                m.headers
                    .iter()
                    .map(|(k, v)| format!("{k}: {}", String::from_utf8_lossy(v)))
                    .collect::<Vec<_>>(),
                now_ns
            )
        });
        let hs: Vec<String> = ex
            .headers
            .iter()
            .map(|(k, v)| format!("{k}: {}", String::from_utf8_lossy(v)))
            .collect();
        let st = ex.status;
        ctx.note(|| format!("response: {st} {hs:?}"));
        let calls = ex.calls.clone();
        ctx.note(|| format!("get_range calls: {calls:?}"));
        let fired = ex.fired.clone();
        ctx.note(|| format!("fault fired: {fired:?}"));
        let steps: Vec<String> = ex
            .log
            .steps
            .iter()
            .take(60)
            .map(|(s, st)| format!("[hint {}..{:?} eos={}] -> {:?}", s.lower, s.upper, s.eos, st))
            .collect();
        ctx.note(|| format!("polls: {steps:#?}"));
        let segs = describe_segs(&ex.log.segs);
        ctx.note(|| format!("body: {segs}"));
    }
    ex
}

const STATUSES: &[u16] = &[200, 206, 304, 400, 405, 412, 413, 416];

fn len_class(l: u64) -> u64 {
    match l {
        0 => 0,
        1 => 1,
        2..=299 => 2,
        300..=69_999 => 3,
        70_000..=0xFFFF_FFFF => 4,
        _ if l >= u64::MAX - 2000 => 6,
        _ => 5,
    }
}

fn pos_class(at: u64, len: u64) -> &'static str {
    if at == 0 {
        "start"
    } else if at == len {
        "end"
    } else if at + 1 == len {
        "end-1"
    } else {
        "middle"
    }
}

fn shape(ex: &Exchange) -> &'static str {
    if ex.is_multipart() {
        "multipart"
    } else if ex.status == 206 {
        "single206"
    } else if ex.status == 200 {
        "full200"
    } else {
        "other"
    }
}

fn base_sig(ex: &Exchange, meta: &Meta, plan: &ReqPlan) -> u64 {
    let mut h = mix(0x51, ex.status as u64);
    h = mix(h, hash_str(shape(ex)));
    h = mix(h, len_class(meta.len));
    h = mix(h, ex.calls.len().min(9) as u64);
    h = mix(h, hash_str(&plan.method));
    h = mix(h, (ex.policy == Policy::Drain) as u64);
    h = mix(h, (ex.log.steps.len().min(40) / 4) as u64);
    h = mix(h, ex.log.steps.iter().any(|s| s.1 == Step::Pending) as u64);
    h = mix(h, meta.etag.is_some() as u64 + 2 * meta.mtime_ns.is_some() as u64);
    h = mix(h, meta.headers.len() as u64);
    for (k, _) in &plan.headers {
        h = mix(h, hash_str(k));
    }
    if let Some(f) = &ex.fired {
        h = mix(h, hash_str(f.kind.name()));
        h = mix(h, f.call.min(5) as u64);
        h = mix(h, hash_str(pos_class(f.at, f.range_len)));
        h = mix(h, f.chunks_before.min(4) as u64);
        h = mix(h, f.pending_before as u64);
    }
    h
}

fn sample_json(ex: &Exchange, meta: &Meta, plan: &ReqPlan, now_ns: u128) -> serde_json::Value {
    json!({
        "request": plan.describe(),
        "entity": { "len": meta.len, "etag": meta.etag.as_ref().map(|e| String::from_utf8_lossy(e).to_string()),
                    "mtime_ns": meta.mtime_ns.map(|m| m.to_string()), "headers": meta.headers.len() },
        "clock_ns": now_ns.to_string(),
        "status": ex.status,
        "get_range_calls": ex.calls.iter().map(|r| format!("{}..{}", r.start, r.end)).collect::<Vec<_>>(),
        "fault": ex.fired.as_ref().map(|f| format!("{} in call {} at byte {} of {} after {} chunks", f.kind.name(), f.call, f.at, f.range_len, f.chunks_before)),
        "polls": ex.log.steps.iter().take(24).map(|(_, s)| match s {
            Step::Data(n) => format!("data({n})"), Step::Err(_) => "err".into(), Step::End => "end".into(),
            Step::Pending => "pending".into(), Step::Panic(_) => "panic".into() }).collect::<Vec<_>>(),
        "policy": format!("{:?}", ex.policy),
        "bytes_delivered": ex.log.total.to_string(),
    })
}

pub fn gen_knobs_pub(t: &mut Tape, faults: bool) -> StreamKnobs {
    gen_knobs(t, faults)
}

fn gen_knobs(t: &mut Tape, faults: bool) -> StreamKnobs {
    let mut k = StreamKnobs {
        pending: t.chance(1, 2),
        empty_chunks: t.chance(1, 3),
        deferred_wakes: t.chance(1, 2),
        chunking: t.draw(3),
        faults: Vec::new(),
        fault_p16: [16, 8, 4][t.draw(3) as usize],
    };
    if faults {
        // Swarm: a random non-empty subset of fault kinds is enabled per run.
        let all = [
            FaultKind::EarlyEnd,
            FaultKind::Error,
            FaultKind::EmptyThenEnd,
            FaultKind::ExtraByte,
            FaultKind::ExtraChunk,
            FaultKind::ErrorAtEnd,
        ];
        for f in all {
            if t.chance(1, 3) {
                k.faults.push(f);
            }
        }
        if k.faults.is_empty() {
            k.faults.push(all[t.draw(6) as usize]);
        }
    }
    k
}

fn gen_policy(t: &mut Tape) -> Policy {
    if t.chance(1, 2) {
        Policy::Drain
    } else {
        Policy::HyperLike
    }
}

/// The ranges a multi-range request asks for, in request order, per the reference resolution;
/// `None` when some spec is ambiguous between RFC 7233 and the implementation's documented
/// behaviour (then only internal consistency is checked).
fn expected_parts(plan: &ReqPlan, l: u64) -> Option<Vec<Range<u64>>> {
    let specs = plan.specs.as_ref()?;
    let mut out = Vec::new();
    for s in specs {
        match resolve(s, l) {
            Res::Sat(r) => out.push(r),
            Res::Unsat => {}
            Res::Ambiguous => return None,
        }
    }
    Some(out)
}

/// One throw-away HEAD exchange at a fixed, far-away clock value before every run. If the code
/// under test keeps state across calls (a cache keyed by time, say), each run then starts from
/// the same state whatever the worker thread did before, so a violation that depends on such
/// state still replays from its tape alone.
fn warm_up() {
    const T0: u128 = 1_000_000_000 * NS + NS / 2;
    let meta = Arc::new(Meta { len: 0, seed: 0, etag: None, mtime_ns: Some(T0 - 10 * NS), headers: Vec::new() });
    let entity = SimEntity { meta, world: World::new(T0) };
    let req = http::Request::builder().method("HEAD").uri("/warm-up").body(()).unwrap();
    CLOCK_NS.with(|c| c.set(T0));
    install_clock();
    let _ = catch(|| drop(http_serve::serve(entity, &req)));
    // ... and one small multipart GET (no If-Range, no entity headers), drained, so that
    // whatever the multipart path might remember is in a known state as well.
    let meta = Arc::new(Meta { len: 1000, seed: 1, etag: None, mtime_ns: None, headers: Vec::new() });
    let world = World::new(T0);
    world.st.lock().unwrap().tape = Some(Tape::replay(Vec::new()));
    let entity = SimEntity { meta, world: world.clone() };
    let req = http::Request::builder().method("GET").uri("/warm-up").header("range", "bytes=0-0,2-2").body(()).unwrap();
    let _ = catch(|| {
        let resp = http_serve::serve(entity, &req);
        let mut body: std::pin::Pin<Box<SimBody>> = Box::pin(resp.into_body());
        let _ = drain(&mut body, &world, Policy::Drain, 0, 0);
    });
    http_serve::verif::set_clock(None);
}

pub fn run(ctx: &mut Ctx) -> Result<RunOut, Violation> {
    warm_up();
    match ctx.focus {
        "C14" => return run_c14(ctx),
        "C15" => return run_c15(ctx),
        "C12" if ctx.tape.chance(1, 12) => return run_body_from(ctx),
        "C20" if ctx.tape.chance(1, 24) => return run_body_from(ctx),
        _ => {}
    }
    let focus = ctx.focus;
    let t = &mut ctx.tape;
    let faults = match focus {
        "C07" | "C20" => true,
        "C13" => t.chance(1, 3),
        // C12 and C01 count "fail early with an Err" as honouring the Entity contract.
        "C12" => t.chance(1, 3),
        "C01" => t.chance(1, 5),
        // C06: an entity stream may fail with an Err (that honours the Entity contract); the
        // multipart body must then not end cleanly looking complete with a part's bytes missing.
        "C06" => t.chance(1, 6),
        // C02: likewise; a body that still ends cleanly after an entity error (a retrying
        // implementation) must be the right bytes, without gaps or repeats.
        "C02" => t.chance(1, 6),
        _ => false,
    };
    let now_ns = gen_clock(t);
    let len_bias = match focus {
        "C06" => 1,
        "C07" | "C20" => [0u32, 1, 2][t.draw(3) as usize],
        _ => [0u32, 0, 1, 2][t.draw(4) as usize],
    };
    let meta = Arc::new(gen_meta(t, now_ns, len_bias));
    let rk = ReqKnobs {
        methods: match focus {
            "C13" => 2,
            "C01" => if t.chance(1, 8) { 2 } else { 0 },
            _ => 0,
        },
        ranges: match focus {
            "C06" => 2,
            "C07" | "C20" | "C12" => [1u32, 1, 2][t.draw(3) as usize],
            _ => [0u32, 1, 1, 2][t.draw(4) as usize],
        },
        conditionals: match focus {
            "C06" => false,
            "C07" | "C20" => t.chance(1, 6),
            _ => t.chance(1, 2),
        },
        hostile: focus == "C13" && t.chance(3, 4),
    };
    let mut plan = gen_request(t, &meta, now_ns, &rk);
    if focus == "C06" && t.chance(1, 3) {
        // With an If-Range: matching strong tag (range honoured) most of the time.
        if let Some(e) = &meta.etag {
            let v = if t.chance(5, 6) { e.clone() } else { b"\"other\"".to_vec() };
            plan.headers.push(("if-range".into(), v));
            plan.has_if_range = true;
        }
    }
    // A server thread serves many entities: with probability 1/3 another, unrelated exchange
    // (own entity, own request, fault-free) happens first on this thread. Its outcome is not
    // judged here; what it may leave behind is part of this run's history.
    if t.chance(1, 3) {
        let pre_now = gen_clock(t);
        let pre_bias = [1u32, 2][t.draw(2) as usize];
        let pre_meta = Arc::new(gen_meta(t, pre_now, pre_bias));
        let pre_rk = ReqKnobs { methods: 1, ranges: [0u32, 1, 2, 2][t.draw(4) as usize], conditionals: t.chance(1, 3), hostile: false };
        let mut pre_plan = gen_request(t, &pre_meta, pre_now, &pre_rk);
        if t.chance(1, 4) {
            if let Some(e) = &pre_meta.etag {
                pre_plan.headers.push(("if-range".into(), e.clone()));
                pre_plan.has_if_range = true;
            }
        }
        let pre_cfg = quiet_cfg(t);
        let _ = exchange(ctx, &pre_meta, pre_now, &pre_plan, &pre_cfg);
        ctx.stats.bump("prelude_exchanges");
    }
    let t = &mut ctx.tape;
    let mut knobs = gen_knobs(t, faults);
    if focus == "C12" || focus == "C01" || focus == "C06" || focus == "C02" {
        // Only contract-honouring misbehaviour: failing early with an Err.
        knobs.faults.retain(|f| *f == FaultKind::Error);
    }
    let cfg = ExchangeCfg {
        policy: gen_policy(t),
        overpoll: match focus {
            "C20" => 1 + t.draw(4),
            "C12" | "C13" | "C07" => t.draw(4),
            _ => t.draw(2),
        },
        fresh_waker_p8: [0u32, 2, 8][t.draw(3) as usize],
        arm_fault: faults && !knobs.faults.is_empty(),
        // Compensating pairs (one part too long, another too short): C07 only.
        // C02/C06: a flaky entity fails more than once (also on a stream reopened after a failure).
        extra_faults: if focus == "C07" && t.chance(1, 4) { 1 } else if (focus == "C02" || focus == "C06") && faults { t.draw(3) } else { 0 },
        clock_step_ns: 0,
        knobs,
    };
    let ex = exchange(ctx, &meta, now_ns, &plan, &cfg);
    if ctx.wants_sample() {
        ctx.sample = Some(sample_json(&ex, &meta, &plan, now_ns));
    }
    let sig = base_sig(&ex, &meta, &plan);
    let st = &mut *ctx.stats;
    st.bump(match ex.status {
        200 => "status_200",
        206 => "status_206",
        304 => "status_304",
        400 => "status_400",
        405 => "status_405",
        412 => "status_412",
        413 => "status_413",
        416 => "status_416",
        0 => "serve_panicked",
        _ => "status_other",
    });
    if ex.is_multipart() {
        st.bump("multipart_served");
    }
    if meta.len >= 1 << 32 {
        st.bump("entity_len_over_4GiB");
    }
    if ex.log.steps.iter().any(|s| s.1 == Step::Pending) {
        st.bump("consumer_parked_then_woken");
    }

    // A panic belongs to C13 (and to C20 when it happens while over-polling).
    let panic = ex.any_panic();
    match focus {
        "C13" => return check_c13(ctx, &ex, &meta, &plan, sig),
        "C20" => return check_c20(ctx, &ex, sig),
        _ => {}
    }
    if let Some(p) = &panic {
        // serve() itself panicking is C13's clause. A body that panics while a normal consumer
        // drains it neither ends cleanly nor delivers what its headers announce: that is a
        // violation of the body properties too (over-polling panics stay with C20).
        let while_draining = ex.serve_panic.is_none() && ex.log.terminal.map(|t| matches!(ex.log.steps[t].1, Step::Panic(_))).unwrap_or(false);
        if while_draining && matches!(focus, "C01" | "C02" | "C06" | "C07") {
            let fs: &'static str = match focus { "C01" => "C01", "C02" => "C02", "C06" => "C06", _ => "C07" };
            return violation(fs, "panic-while-draining", format!("{p}; status {} after {} bytes; request {}; entity len {}", ex.status, ex.log.total, plan.describe(), meta.len));
        }
        ctx.stats.bump("runs_cut_short_by_a_panic_(reported_by_C13/C20)");
        return Ok(RunOut { sig, nontrivial: false });
    }
    if let Some(b) = &ex.breach {
        // serve asked the entity for a range outside the entity: every body property is moot
        // and it is reported under the property that owns ranges (C02).
        if focus == "C02" {
            return violation("C02", "range-outside-entity", b.clone());
        }
    }
    match focus {
        "C01" => check_c01(ctx, &ex, &plan, sig),
        "C02" => check_c02(ctx, &ex, &meta, &plan, sig),
        "C06" => check_c06(ctx, &ex, &meta, &plan, sig),
        "C07" => check_c07(ctx, &ex, sig),
        "C12" => check_c12(ctx, &ex, sig),
        _ => Ok(RunOut { sig, nontrivial: false }),
    }
}

// ---------------------------------------------------------------- C01

fn announced(ex: &Exchange) -> Result<(Option<u64>, Option<u64>), String> {
    let cl = ex.content_length()?;
    let hint = ex.log.initial.as_ref().and_then(|s| {
        if s.upper == Some(s.lower) {
            Some(s.lower)
        } else {
            None
        }
    });
    Ok((cl, hint))
}

fn check_c01(ctx: &mut Ctx, ex: &Exchange, plan: &ReqPlan, sig: u64) -> Result<RunOut, Violation> {
    let head = plan.method == "HEAD";
    let (cl, hint) = match announced(ex) {
        Ok(v) => v,
        Err(e) => return violation("C01", "content-length-syntax", e),
    };
    if matches!(ex.status, 200 | 206) && cl.is_none() {
        return violation("C01", "content-length-missing", format!("{} response without Content-Length", ex.status));
    }
    let Some(first) = ex.log.initial.as_ref() else {
        return violation("C01", "no-poll", "body was never polled".into());
    };
    if first.upper != Some(first.lower) {
        return violation(
            "C01",
            "hint-not-exact",
            format!("status {}: size hint before the first poll is {}..{:?}, not exact", ex.status, first.lower, first.upper),
        );
    }
    let hint = hint.unwrap();
    if !head {
        if let Some(cl) = cl {
            if cl != hint {
                return violation("C01", "hint-vs-content-length", format!("Content-Length {cl} but exact size hint {hint}"));
            }
        }
    }
    let ann = if head { hint } else { cl.unwrap_or(hint) };
    // Never more than announced, at any frame.
    let mut run = 0u128;
    for (i, (_, s)) in ex.log.steps.iter().enumerate() {
        if let Step::Data(n) = s {
            run += *n as u128;
            if run > ann as u128 {
                return violation(
                    "C01",
                    "more-than-announced",
                    format!("after poll #{} the body has delivered {run} bytes, announced {ann}", i + 1),
                );
            }
        }
    }
    if ex.clean_end() && ex.log.total != ann as u128 {
        return violation(
            "C01",
            "clean-end-length-mismatch",
            format!("status {}: body ended cleanly after {} bytes, announced {ann}", ex.status, ex.log.total),
        );
    }
    ctx.stats.bump(if ex.clean_end() { "clean_end" } else { "no_clean_end" });
    Ok(RunOut { sig, nontrivial: ex.clean_end() })
}

// ---------------------------------------------------------------- C02

fn body_is_entity_range(ex: &Exchange, seed: u64, off: u64, len: u64) -> Result<(), String> {
    let mut c = Cur::new(&ex.log.segs, seed);
    c.take_entity(off, len)?;
    if !c.at_end() {
        return Err(format!("extra bytes after the range: {}", c.describe_rest()));
    }
    Ok(())
}

/// Entity reads as a set of stretches: empty reads dropped, adjacent reads merged. (How the body
/// splits its reads is its own business; *what* it reads is the property's.)
fn coalesce(v: &[Range<u64>]) -> Vec<Range<u64>> {
    let mut out: Vec<Range<u64>> = Vec::new();
    for r in v {
        if r.start >= r.end {
            continue;
        }
        match out.last_mut() {
            Some(l) if l.end == r.start => l.end = r.end,
            _ => out.push(r.clone()),
        }
    }
    out
}

pub fn check_c02(ctx: &mut Ctx, ex: &Exchange, meta: &Meta, plan: &ReqPlan, sig: u64) -> Result<RunOut, Violation> {
    if plan.method != "GET" {
        return Ok(RunOut { sig, nontrivial: false });
    }
    let l = meta.len;
    let complete = ex.clean_end();
    if !complete && ex.fired.is_some() && ex.first_err().is_some() {
        // An entity stream failed and the body reported an error: nothing more for C02 to say
        // (what was delivered before the error is judged by C07's prefix oracle).
        return Ok(RunOut { sig, nontrivial: false });
    }
    let why_incomplete = || {
        if ex.log.stalled {
            "the consumer was left parked with no wake-up pending (stalled)".to_string()
        } else if let Some(e) = ex.first_err() {
            format!("the body failed with {e} although the entity honoured its contract")
        } else {
            "the body did not end".to_string()
        }
    };
    match ex.status {
        200 => {
            if ex.hdr("content-range").is_some() {
                return violation("C02", "200-with-content-range", "200 response carries Content-Range".into());
            }
            if !complete {
                return violation("C02", "200-incomplete", why_incomplete());
            }
            if let Err(e) = body_is_entity_range(ex, meta.seed, 0, l) {
                return violation("C02", "200-body-not-entity", format!("entity length {l}: {e}; body = {}", describe_segs(&ex.log.segs)));
            }
            if coalesce(&ex.calls) != coalesce(&[0..l]) {
                return violation("C02", "200-reads", format!("200 read {:?} from the entity, expected exactly [0..{l}]", ex.calls));
            }
        }
        206 if ex.is_multipart() => {
            if !complete {
                return violation("C02", "206-incomplete", why_incomplete());
            }
            let b = match mpart::boundary_of(ex.hdr("content-type").unwrap()) {
                Ok(b) => b,
                Err(e) => return violation("C02", "multipart-boundary", e),
            };
            match mpart::parse(&ex.log.segs, meta.seed, &b) {
                Err(e) => return violation("C02", "multipart-body", format!("{e}; body = {}", describe_segs(&ex.log.segs))),
                Ok(parts) => {
                    let named: Vec<Range<u64>> = parts.iter().map(|p| p.a..p.b + 1).collect();
                    if coalesce(&ex.calls) != coalesce(&named) {
                        return violation("C02", "multipart-reads", format!("entity reads {:?} differ from the ranges the parts name {:?}", ex.calls, named));
                    }
                    for p in &parts {
                        if p.total != l || p.b >= l {
                            return violation("C02", "multipart-content-range", format!("part {}-{}/{} on an entity of length {l}", p.a, p.b, p.total));
                        }
                    }
                }
            }
        }
        206 => {
            let Some(cr) = ex.hdr("content-range") else {
                return violation("C02", "206-no-content-range", "single-part 206 without Content-Range".into());
            };
            let (a, b, tot) = match mpart::parse_content_range(cr) {
                Ok(v) => v,
                Err(e) => return violation("C02", "206-content-range-syntax", e),
            };
            if !(a <= b && b < l && tot == l) {
                return violation(
                    "C02",
                    "206-content-range-bounds",
                    format!("Content-Range: bytes {a}-{b}/{tot} on an entity of length {l} (need a <= b < L, L = length); request {}", plan.describe()),
                );
            }
            if !complete {
                return violation("C02", "206-incomplete", why_incomplete());
            }
            if let Err(e) = body_is_entity_range(ex, meta.seed, a, b - a + 1) {
                return violation("C02", "206-body-not-range", format!("Content-Range {a}-{b}/{tot}: {e}; body = {}", describe_segs(&ex.log.segs)));
            }
            if coalesce(&ex.calls) != coalesce(&[a..b + 1]) {
                return violation("C02", "206-reads", format!("206 {a}-{b} read {:?} from the entity", ex.calls));
            }
        }
        _ => {
            if !ex.calls.is_empty() {
                return violation("C02", "reads-without-body", format!("status {} but the entity was asked for {:?}", ex.status, ex.calls));
            }
            if ex.log.segs.iter().any(|s| matches!(s, Seg::Ent { .. })) {
                return violation("C02", "entity-bytes-in-error-body", format!("status {} body contains entity bytes: {}", ex.status, describe_segs(&ex.log.segs)));
            }
        }
    }
    ctx.stats.bump("c02_bodies_compared");
    Ok(RunOut { sig, nontrivial: matches!(ex.status, 200 | 206) })
}

// ---------------------------------------------------------------- C06

fn entity_header_multiset(meta: &Meta) -> Vec<(String, Vec<u8>)> {
    let mut v: Vec<(String, Vec<u8>)> = meta.headers.iter().map(|(k, v)| (k.to_ascii_lowercase(), v.clone())).collect();
    v.sort();
    v
}

pub fn check_c06(ctx: &mut Ctx, ex: &Exchange, meta: &Meta, plan: &ReqPlan, sig: u64) -> Result<RunOut, Violation> {
    if plan.method != "GET" || !ex.is_multipart() {
        // Which answer is chosen (multipart or a complete 200) is C03's business.
        // (An entity may itself be a multipart document: then a single-range 206 legitimately
        // carries Content-Range next to the entity's own multipart Content-Type.)
        let entity_is_multipart = meta.headers.iter().any(|(k, v)| k.eq_ignore_ascii_case("content-type") && v.to_ascii_lowercase().starts_with(b"multipart/"));
        if !entity_is_multipart && ex.status == 206 && ex.hdr("content-range").is_some() && ex.hdr("content-type").map(|v| v.to_ascii_lowercase().starts_with(b"multipart/")).unwrap_or(false) {
            return violation("C06", "top-level-content-range", "multipart 206 carries a top-level Content-Range".into());
        }
        return Ok(RunOut { sig, nontrivial: false });
    }
    let l = meta.len;
    let b = match mpart::boundary_of(ex.hdr("content-type").unwrap()) {
        Ok(b) => b,
        Err(e) => return violation("C06", "boundary", e),
    };
    if ex.fired.is_some() || ex.planned.is_some() {
        // An entity stream failed: the only thing C06 can say is that such a body must not end
        // cleanly with less than it announced (a part present by its header but without bytes).
        if ex.clean_end() && ex.fired.is_some() {
            let cl = ex.hdr("content-length").and_then(|v| std::str::from_utf8(v).ok()).and_then(|v| v.parse::<u128>().ok());
            if cl != Some(ex.log.total) {
                return violation("C06", "clean-end-after-entity-error", format!("an entity stream failed ({:?}) yet the multipart body ended cleanly with {} bytes, Content-Length {:?}", ex.fired.as_ref().map(|f| (f.kind.name(), f.call, f.at)), ex.log.total, cl));
            }
        }
        return Ok(RunOut { sig, nontrivial: false });
    }
    if !ex.clean_end() {
        return violation(
            "C06",
            "incomplete",
            format!("multipart body did not end cleanly on a well-behaved entity: {:?} stalled={}", ex.first_err(), ex.log.stalled),
        );
    }
    let parts = match mpart::parse(&ex.log.segs, meta.seed, &b) {
        Ok(p) => p,
        Err(e) => return violation("C06", "malformed-body", format!("{e}; body = {}", describe_segs(&ex.log.segs))),
    };
    let cl = match ex.content_length() {
        Ok(Some(v)) => v,
        Ok(None) => return violation("C06", "content-length-missing", "multipart 206 without Content-Length".into()),
        Err(e) => return violation("C06", "content-length-syntax", e),
    };
    if cl as u128 != ex.log.total {
        return violation("C06", "content-length-mismatch", format!("Content-Length {cl} but the body is {} bytes long", ex.log.total));
    }
    for p in &parts {
        if p.total != l {
            return violation("C06", "part-total", format!("part says /{} but the entity is {l} bytes long", p.total));
        }
        if p.b >= l {
            return violation("C06", "part-beyond-entity", format!("part {}-{} on an entity of length {l}", p.a, p.b));
        }
    }
    let got: Vec<Range<u64>> = parts.iter().map(|p| p.a..p.b + 1).collect();
    match expected_parts(plan, l) {
        Some(want) => {
            if got != want {
                return violation(
                    "C06",
                    "parts-differ-from-request",
                    format!("request {} on length {l}: satisfiable ranges in request order are {want:?} but the parts are {got:?}", plan.describe()),
                );
            }
        }
        None => ctx.stats.bump("c06_ambiguous_spec_(parts_checked_for_consistency_only)"),
    }
    // Entity headers inside every part iff the request had no If-Range.
    let want_h = if plan.has_if_range { Vec::new() } else { entity_header_multiset(meta) };
    for (i, p) in parts.iter().enumerate() {
        let mut h = p.headers.clone();
        h.sort();
        if h != want_h {
            let show = |v: &Vec<(String, Vec<u8>)>| v.iter().map(|(k, v)| format!("{k}: {}", String::from_utf8_lossy(v))).collect::<Vec<_>>();
            return violation(
                "C06",
                "part-entity-headers",
                format!("part {} has headers {:?}, expected {:?} (If-Range in request: {})", i + 1, show(&h), show(&want_h), plan.has_if_range),
            );
        }
    }
    let st = &mut *ctx.stats;
    st.bump("c06_multipart_bodies_parsed");
    st.add("c06_parts_parsed", parts.len() as u64);
    if plan.has_if_range {
        st.bump("c06_with_matching_if_range");
    }
    st.grid.insert(format!("parts={} headers={} width={}", parts.len().min(9), meta.headers.len(), l.to_string().len()));
    let sig = mix(sig, parts.len() as u64);
    Ok(RunOut { sig: mix(sig, l.to_string().len() as u64), nontrivial: true })
}

// ---------------------------------------------------------------- C07

fn check_c07(ctx: &mut Ctx, ex: &Exchange, sig: u64) -> Result<RunOut, Violation> {
    // A surplus chunk planned right after the last byte only "fires" if the body asks the entity's
    // stream again; a consumer that polls past the announced length must get an error either way.
    let planned_surplus = match (&ex.fired, &ex.planned) {
        (None, Some(p)) if p.kind == FaultKind::ExtraChunk => Some(p.clone()),
        _ => None,
    };
    let Some(f) = ex.fired.as_ref().or(planned_surplus.as_ref()) else {
        return Ok(RunOut { sig, nontrivial: false });
    };
    if !matches!(ex.status, 200 | 206) {
        return Ok(RunOut { sig, nontrivial: false });
    }
    let ann = match ex.content_length() {
        Ok(Some(v)) => v,
        _ => return Ok(RunOut { sig, nontrivial: false }), // C01's finding
    };
    let cell = format!(
        "{}|{}|part{}|{}|chunk{}|pending={}",
        shape(ex),
        f.kind.name(),
        if ex.is_multipart() { f.call.min(4) } else { 0 },
        pos_class(f.at, f.range_len),
        f.chunks_before.min(4),
        f.pending_before
    );
    ctx.stats.grid.insert(cell);
    let describe = || format!("{} {} in get_range call #{} at byte {} of {} (after {} chunks)", shape(ex), f.kind.name(), f.call, f.at, f.range_len, f.chunks_before);
    // Nothing beyond the announced length is ever passed on.
    let mut run = 0u128;
    let mut reached_at = None;
    for (i, (_, s)) in ex.log.steps.iter().enumerate() {
        if let Step::Data(n) = s {
            run += *n as u128;
            if run > ann as u128 {
                return violation("C07", "passed-on-beyond-announced", format!("{}: poll #{} brought the total to {run}, announced {ann}", describe(), i + 1));
            }
            if run == ann as u128 && reached_at.is_none() {
                reached_at = Some(i);
            }
        }
    }
    let any_short = f.kind.is_short() || ex.fired_all.iter().any(|x| x.kind.is_short());
    if ex.fired_all.len() > 1 {
        ctx.stats.bump("c07_runs_with_two_faults");
    }
    if any_short {
        // The first terminal event must be an error; never a clean end.
        match ex.log.terminal.map(|i| &ex.log.steps[i].1) {
            Some(Step::Err(_)) => {}
            Some(Step::End) => {
                return violation("C07", "short-stream-ended-cleanly", format!("{}: the body ended cleanly after {} of {ann} bytes", describe(), ex.log.total));
            }
            _ => {
                if ex.log.stopped_by_eos.is_some() {
                    return violation("C07", "short-stream-claims-end", format!("{}: is_end_stream() became true after {} of {ann} bytes before any error was reported", describe(), ex.log.total));
                }
                return violation("C07", "short-stream-no-error", format!("{}: no error surfaced (stalled={}, polls={})", describe(), ex.log.stalled, ex.log.steps.len()));
            }
        }
        if ex.log.total >= ann as u128 {
            return violation("C07", "short-stream-full-length", format!("{}: {} bytes were delivered before the error, announced {ann}", describe(), ex.log.total));
        }
    } else if f.kind == FaultKind::ErrorAtEnd && ex.fired.is_some() {
        // The stream failed right after its last byte: a consumer that polls to the end (and
        // every multipart body, which asks each part for its end) must see an error.
        if ex.policy == Policy::Drain || ex.is_multipart() {
            match ex.log.terminal.map(|i| &ex.log.steps[i].1) {
                Some(Step::Err(_)) => {}
                other => {
                    return violation("C07", "failed-stream-ended-cleanly", format!("{}: the entity stream failed but the body drained to {:?}", describe(), other));
                }
            }
        }
    } else if f.kind.is_long() {
        // Polling past the announced length yields an error, not data.
        if ex.policy == Policy::Drain || ex.is_multipart() {
            match ex.log.terminal.map(|i| &ex.log.steps[i].1) {
                Some(Step::Err(_)) => {}
                other => {
                    return violation("C07", "long-stream-no-error", format!("{}: drained to {:?} without an error", describe(), other));
                }
            }
        } else if ex.log.data_after_terminal > 0 {
            return violation("C07", "long-stream-data-after-end", format!("{}: data frames after the announced length", describe()));
        }
    }
    ctx.stats.bump("c07_faults_judged");
    Ok(RunOut { sig, nontrivial: true })
}

// ---------------------------------------------------------------- C12

fn check_c12(ctx: &mut Ctx, ex: &Exchange, sig: u64) -> Result<RunOut, Violation> {
    check_hints("C12", &ex.log, ex.clean_end(), true)?;
    ctx.stats.add("c12_samples_checked", ex.log.steps.len() as u64);
    Ok(RunOut { sig, nontrivial: ex.log.steps.len() > 1 })
}

/// The per-step invariant shared by all engines: bounds bracket what is still delivered on a
/// clean end; once end-of-stream is claimed nothing but the end follows.
pub fn check_hints(prop: &'static str, log: &DrainLog, clean_end: bool, must_be_exact: bool) -> Result<(), Violation> {
    // eos => no further data and no error
    let mut eos_at = None;
    for (i, (s, st)) in log.steps.iter().enumerate() {
        if s.eos && eos_at.is_none() {
            eos_at = Some(i);
        }
        if let Some(j) = eos_at {
            match st {
                Step::Data(n) if *n > 0 => {
                    return violation(prop, "data-after-end-of-stream", format!("is_end_stream() was true before poll #{} but poll #{} returned {n} bytes", j + 1, i + 1));
                }
                Step::Err(e) => {
                    return violation(prop, "error-after-end-of-stream", format!("is_end_stream() was true before poll #{} but poll #{} returned error {e}", j + 1, i + 1));
                }
                _ => {}
            }
        }
        if must_be_exact && s.upper != Some(s.lower) {
            return violation(prop, "hint-not-exact", format!("before poll #{} the size hint is {}..{:?}", i + 1, s.lower, s.upper));
        }
    }
    // After the first terminal event the body delivers nothing more; if it is then seen to end
    // (None), any sample taken in between that still promises bytes was untruthful.
    if let Some(t) = log.terminal {
        for i in t + 1..log.steps.len() {
            let ends_later = log.steps[i..].iter().any(|s| s.1 == Step::End);
            if ends_later && log.steps[i].0.lower > 0 {
                return violation(prop, "lower-bound-after-termination", format!("before poll #{} (after the terminal event at poll #{}) the lower bound is still {} but the body only ended", i + 1, t + 1, log.steps[i].0.lower));
            }
        }
    }
    if clean_end {
        // remaining_i = bytes delivered from step i on (before the first terminal event).
        let end = log.terminal.or(log.stopped_by_eos).unwrap_or(log.steps.len());
        let mut remaining = log.total;
        for (i, (s, st)) in log.steps.iter().enumerate().take(end + 1) {
            if (s.lower as u128) > remaining {
                return violation(prop, "lower-bound-too-high", format!("before poll #{} lower bound {} but only {remaining} bytes followed", i + 1, s.lower));
            }
            if let Some(u) = s.upper {
                if (u as u128) < remaining {
                    return violation(prop, "upper-bound-too-low", format!("before poll #{} upper bound {u} but {remaining} bytes followed", i + 1));
                }
            }
            if i < end {
                if let Step::Data(n) = st {
                    remaining -= *n as u128;
                }
            }
        }
    }
    Ok(())
}

// ---------------------------------------------------------------- C13

fn check_c13(ctx: &mut Ctx, ex: &Exchange, meta: &Meta, plan: &ReqPlan, sig: u64) -> Result<RunOut, Violation> {
    let what = || format!("request {} on entity len={} etag={:?} mtime={:?}", plan.describe(), meta.len, meta.etag.as_ref().map(|e| String::from_utf8_lossy(e).to_string()), meta.mtime_ns);
    if let Some(p) = ex.any_panic() {
        // Over-polling a finished body is C20's clause; draining is C13's.
        let in_drain = ex.serve_panic.is_some()
            || ex.log.terminal.map(|t| matches!(ex.log.steps[t].1, Step::Panic(_))).unwrap_or(ex.log.hint_panic.is_some() && ex.log.terminal.is_none() && ex.log.stopped_by_eos.is_none());
        if in_drain {
            return violation("C13", "panic", format!("{p}; {}", what()));
        }
        ctx.stats.bump("panic_while_over-polling_(C20's_clause)");
        return Ok(RunOut { sig, nontrivial: false });
    }
    if !STATUSES.contains(&ex.status) {
        return violation("C13", "status-outside-set", format!("status {}; {}", ex.status, what()));
    }
    if plan.method != "GET" && plan.method != "HEAD" {
        if ex.status != 405 {
            return violation("C13", "method-not-405", format!("method {} answered {}", plan.method, ex.status));
        }
        let allow = ex.hdr("allow").map(|v| String::from_utf8_lossy(v).to_ascii_uppercase()).unwrap_or_default();
        let toks: Vec<&str> = allow.split(',').map(|s| s.trim()).collect();
        if !(toks.contains(&"GET") && toks.contains(&"HEAD")) {
            return violation("C13", "allow-header", format!("405 with Allow: {allow:?}"));
        }
        if !ex.calls.is_empty() {
            return violation("C13", "405-read-entity", format!("405 but get_range was called: {:?}", ex.calls));
        }
    } else if ex.status == 405 {
        return violation("C13", "get-head-405", format!("method {} answered 405", plan.method));
    }
    if ex.log.stalled && ex.fired.is_none() {
        return violation("C13", "drain-stalled", format!("draining never finished; {}", what()));
    }
    if plan.corrupted {
        ctx.stats.bump("c13_corrupted_requests");
    }
    Ok(RunOut { sig, nontrivial: true })
}

// ---------------------------------------------------------------- C20

fn check_c20(ctx: &mut Ctx, ex: &Exchange, sig: u64) -> Result<RunOut, Violation> {
    if ex.serve_panic.is_some() {
        return Ok(RunOut { sig, nontrivial: false });
    }
    let first = ex.log.terminal.or(ex.log.stopped_by_eos);
    let Some(first) = first else {
        return Ok(RunOut { sig, nontrivial: false });
    };
    let kind = if ex.log.stopped_by_eos == Some(first) && ex.log.terminal.is_none() {
        "end-of-stream-flag"
    } else {
        match &ex.log.steps[first].1 {
            Step::End => "clean-end",
            Step::Err(e) if e.contains("Injected") => "entity-error",
            Step::Err(e) if e.contains("still expected") => "too-short",
            Step::Err(e) if e.contains("more than expected") => "too-long",
            Step::Err(_) => "other-error",
            Step::Panic(_) => return Ok(RunOut { sig, nontrivial: false }), // C13's clause
            _ => "?",
        }
    };
    let after: Vec<&Step> = ex.log.steps.iter().skip(if ex.log.terminal == Some(first) { first + 1 } else { first }).map(|s| &s.1).collect();
    let describe = || {
        format!(
            "{} body, terminal event {kind}{}; polled {} more times: {:?}",
            shape(ex),
            ex.fired.as_ref().map(|f| format!(" ({} in call {} at byte {}/{})", f.kind.name(), f.call, f.at, f.range_len)).unwrap_or_default(),
            after.len(),
            after
        )
    };
    if let Some(p) = &ex.log.hint_panic {
        return violation("C20", "panic-after-termination", format!("{p}; {}", describe()));
    }
    for (k, s) in after.iter().enumerate() {
        match s {
            Step::Panic(p) => return violation("C20", "panic-after-termination", format!("extra poll #{} panicked: {p}; {}", k + 1, describe())),
            Step::Data(n) if *n > 0 => return violation("C20", "data-after-termination", format!("extra poll #{} returned {n} bytes; {}", k + 1, describe())),
            // A terminated body is fused: after an error or the end (None) it yields no frame at
            // all, not even an empty one (after a mere end-of-stream *flag* an empty frame is fine).
            Step::Data(_) if ex.log.terminal == Some(first) => return violation("C20", "frame-after-termination", format!("extra poll #{} returned a (zero-length) data frame; {}", k + 1, describe())),
            _ => {}
        }
    }
    ctx.stats.grid.insert(format!("{}|{kind}|extra={}", shape(ex), after.len().min(4)));
    ctx.stats.add("c20_extra_polls", after.len() as u64);
    let sig = mix(mix(sig, hash_str(kind)), after.len() as u64);
    Ok(RunOut { sig, nontrivial: !after.is_empty() })
}

// ---------------------------------------------------------------- C12: Body::from / Body::empty

fn run_body_from(ctx: &mut Ctx) -> Result<RunOut, Violation> {
    static S: &[u8] = b"static bytes \x00\xff";
    let c20 = ctx.focus == "C20";
    let t = &mut ctx.tape;
    let n = [0usize, 1, 2, 17, 4096, 70_000][t.draw(6) as usize];
    let which = t.draw(5);
    let policy = gen_policy(t);
    let overpoll = if c20 { 1 + t.draw(4) } else { t.draw(3) };
    let (body, want): (SimBody, usize) = match which {
        0 => (SimBody::empty(), 0),
        1 => (SimBody::from(S), S.len()),
        2 => (SimBody::from("static str"), 10),
        3 => (SimBody::from(vec![7u8; n]), n),
        _ => (SimBody::from("x".repeat(n)), n),
    };
    let world = World::new(0);
    lend(ctx, &world);
    let mut body = Box::pin(body);
    let log = drain(&mut body, &world, policy, overpoll, 2);
    reclaim(ctx, &world);
    ctx.ev("body_from", which as u64, log.total as u64);
    if c20 {
        // Terminated bodies stay terminated: the one-shot body after its end.
        if let Some(p) = log.hint_panic.clone().or_else(|| log.steps.iter().find_map(|s| if let Step::Panic(p) = &s.1 { Some(p.clone()) } else { None })) {
            return violation("C20", "panic-after-termination", format!("Body::from variant {which}: {p}"));
        }
        if log.data_after_terminal > 0 {
            return violation("C20", "data-after-termination", format!("Body::from variant {which} of {want} bytes yielded data again after its end: {:?}", log.steps.iter().map(|s| &s.1).collect::<Vec<_>>()));
        }
        ctx.stats.grid.insert(format!("once|clean-end|extra={}", overpoll.min(4)));
        ctx.stats.add("c20_extra_polls", overpoll as u64);
        return Ok(RunOut { sig: mix(mix(0xB0D8, which as u64), overpoll as u64), nontrivial: true });
    }
    ctx.stats.bump("c12_body_from_conversions");
    if let Some(p) = log.hint_panic.clone().or_else(|| log.steps.iter().find_map(|s| if let Step::Panic(p) = &s.1 { Some(p.clone()) } else { None })) {
        return violation("C12", "body-from-panic", p);
    }
    let clean = log.stopped_by_eos.is_some() || matches!(log.terminal.map(|i| &log.steps[i].1), Some(Step::End));
    if !clean || log.total != want as u128 {
        return violation("C12", "body-from-content", format!("Body::from variant {which} of {want} bytes delivered {} bytes, clean end = {clean}", log.total));
    }
    check_hints("C12", &log, true, true)?;
    Ok(RunOut { sig: mix(mix(0xB0D7, which as u64), n as u64), nontrivial: true })
}

// ---------------------------------------------------------------- C14

fn floor_s(ns: u128) -> u64 {
    (ns / NS) as u64
}

fn parse_date(v: Option<&[u8]>) -> Option<u64> {
    let s = std::str::from_utf8(v?).ok()?;
    let t = httpdate::parse_http_date(s).ok()?;
    Some(t.duration_since(std::time::UNIX_EPOCH).ok()?.as_secs())
}

/// Header clauses of C14 on one response.
fn check_c14_headers(ex: &Exchange, meta: &Meta, plan: &ReqPlan, now_ns: u128, which: &str) -> Result<(), Violation> {
    if !matches!(ex.status, 200 | 206 | 304 | 412 | 416) {
        return Ok(());
    }
    let ctxs = || format!("{which} response {} to {}", ex.status, plan.describe());
    match ex.hdr("accept-ranges") {
        Some(v) if v.eq_ignore_ascii_case(b"bytes") => {}
        other => return violation("C14", "accept-ranges", format!("{}: Accept-Ranges is {:?}", ctxs(), other.map(String::from_utf8_lossy))),
    }
    match (&meta.etag, ex.hdr("etag")) {
        (Some(e), Some(g)) if &e[..] == g && ex.hdr_count("etag") == 1 => {}
        (None, None) => {}
        (e, g) => {
            return violation("C14", "etag-not-faithful", format!("{}: entity ETag {:?}, served {:?}", ctxs(), e.as_ref().map(|e| String::from_utf8_lossy(e).to_string()), g.map(String::from_utf8_lossy)));
        }
    }
    if let Some(m) = meta.mtime_ns {
        let date = parse_date(ex.hdr("date"));
        let lm = parse_date(ex.hdr("last-modified"));
        let (Some(date), Some(lm)) = (date, lm) else {
            return violation("C14", "date-headers-missing", format!("{}: Date {:?} Last-Modified {:?}", ctxs(), ex.hdr("date").map(String::from_utf8_lossy), ex.hdr("last-modified").map(String::from_utf8_lossy)));
        };
        if lm > date {
            return violation("C14", "last-modified-after-date", format!("{}: Last-Modified {lm} > Date {date} (mtime_ns {m}, clock_ns {now_ns})", ctxs()));
        }
        if m <= now_ns && lm != floor_s(m) {
            return violation("C14", "last-modified-wrong", format!("{}: Last-Modified {lm} but the entity was modified at second {} (clock second {})", ctxs(), floor_s(m), floor_s(now_ns)));
        }
    }
    // Entity headers.
    match ex.status {
        200 => all_entity_headers_present(ex, meta, &ctxs())?,
        206 if !plan.has_if_range && !ex.is_multipart() => all_entity_headers_present(ex, meta, &ctxs())?,
        304 | 412 | 416 => {
            // "carry none of them": none of the header fields the entity supplies (name and
            // value); a response header of its own that merely shares a name is not one of them.
            for (k, v) in &meta.headers {
                let k = k.to_ascii_lowercase();
                if ex.headers.iter().any(|(hk, hv)| *hk == k && hv == v) {
                    return violation("C14", "entity-header-on-bodiless-status", format!("{}: carries the entity's header {k}: {:?}", ctxs(), String::from_utf8_lossy(v)));
                }
            }
        }
        _ => {}
    }
    Ok(())
}

fn all_entity_headers_present(ex: &Exchange, meta: &Meta, ctxs: &str) -> Result<(), Violation> {
    for (k, v) in &meta.headers {
        let k = k.to_ascii_lowercase();
        if !ex.headers.iter().any(|(hk, hv)| *hk == k && hv == v) {
            return violation("C14", "entity-header-missing", format!("{ctxs}: entity header {k}: {:?} is missing", String::from_utf8_lossy(v)));
        }
    }
    Ok(())
}

fn quiet_cfg(t: &mut Tape) -> ExchangeCfg {
    ExchangeCfg {
        policy: gen_policy(t),
        overpoll: 0,
        fresh_waker_p8: 0,
        knobs: StreamKnobs { chunking: 0, ..Default::default() },
        arm_fault: false,
        extra_faults: 0,
        // A clock that ticks (or steps) between two reads inside one serve() call.
        clock_step_ns: [0u128, 0, 0, 1, 1_000_000, NS, 3600 * NS][t.draw(7) as usize],
    }
}

fn run_c14(ctx: &mut Ctx) -> Result<RunOut, Violation> {
    let t = &mut ctx.tape;
    let t1 = gen_clock(t);
    let meta = Arc::new(gen_meta(t, t1, 2));
    let rk = ReqKnobs { methods: 0, ranges: [0u32, 0, 1, 1, 2][t.draw(5) as usize], conditionals: t.chance(1, 3), hostile: false };
    let plan1 = gen_request(t, &meta, t1, &rk);
    let cfg = quiet_cfg(t);
    let ex1 = exchange(ctx, &meta, t1, &plan1, &cfg);
    if ex1.any_panic().is_some() {
        ctx.stats.bump("runs_cut_short_by_a_panic_(reported_by_C13/C20)");
        return Ok(RunOut { sig: 0, nontrivial: false });
    }
    check_c14_headers(&ex1, &meta, &plan1, t1, "first")?;

    // The clock moves between the two requests.
    let t = &mut ctx.tape;
    let jump = t.draw(11);
    let t2: u128 = match jump {
        // less than a second later, but in the next calendar second
        8 => (t1 / NS + 1) * NS + (t1 % NS) / 2,
        9 => (t1 / NS + 1) * NS + [0u128, 1, 500_000_000][t.draw(3) as usize].min((t1 % NS).saturating_sub(1)),
        10 => t1 + 999_999_999,
        0 => t1,
        1 => t1 + 1,
        2 => (t1 / NS + 1) * NS,
        3 => t1 + 3600 * NS,
        4 => t1 + 86_400 * NS,
        5 => t1.saturating_sub(1),
        6 => t1.saturating_sub(3600 * NS),
        _ => meta.mtime_ns.map(|m| m.saturating_sub(1 + t.draw(2_000_000_000) as u128)).unwrap_or(t1),
    }
    .min((MAX_SECS as u128 - 1) * NS);
    ctx.stats.bump(if t2 < t1 { "clock_moved_backwards" } else if t2 == t1 { "clock_unchanged" } else { "clock_moved_forwards" });
    ctx.stats.sim_time_ns += t2.abs_diff(t1);
    if meta.mtime_ns.map(|m| t2 < m).unwrap_or(false) {
        ctx.stats.bump("clock_before_mtime_at_second_request");
    }

    // Echo a non-empty subset of what was served.
    let served_etag = ex1.hdr("etag").map(|v| v.to_vec());
    let served_lm = ex1.hdr("last-modified").map(|v| v.to_vec());
    let strong = served_etag.as_ref().map(|e| !e.starts_with(b"W/")).unwrap_or(false);
    // Date echoes are asserted only when the served Last-Modified is the entity's own second.
    let lm_is_own = meta.mtime_ns.map(|m| m <= t1).unwrap_or(false);
    let mut plan2 = ReqPlan { method: if t.chance(1, 5) { "HEAD".into() } else { "GET".into() }, ..Default::default() };
    let mut inm = false;
    let mut ims = false;
    let mut im = false;
    let mut ius = false;
    let mut ir = false;
    for _ in 0..3 {
        match t.draw(5) {
            0 if served_etag.is_some() => inm = true,
            1 if served_lm.is_some() && lm_is_own => ims = true,
            2 if strong => im = true,
            3 if served_lm.is_some() && lm_is_own => ius = true,
            4 if strong && meta.len > 0 => ir = true,
            _ => {}
        }
    }
    if !(inm || ims || im || ius || ir) {
        return Ok(RunOut { sig: mix(0xC14, ex1.status as u64), nontrivial: false });
    }
    if !matches!(ex1.status, 200 | 206 | 304 | 412 | 416) {
        return Ok(RunOut { sig: mix(0xC14, ex1.status as u64), nontrivial: false });
    }
    let mut want_range = None;
    if im {
        plan2.headers.push(("if-match".into(), served_etag.clone().unwrap()));
    }
    if ius {
        plan2.headers.push(("if-unmodified-since".into(), served_lm.clone().unwrap()));
    }
    if inm {
        plan2.headers.push(("if-none-match".into(), served_etag.clone().unwrap()));
    }
    if ims {
        plan2.headers.push(("if-modified-since".into(), served_lm.clone().unwrap()));
    }
    if ir {
        let spec = gen_spec(t, meta.len, true);
        if let Res::Sat(r) = resolve(&spec, meta.len) {
            want_range = Some(r);
        }
        plan2.headers.push(("range".into(), render_specs(t, std::slice::from_ref(&spec))));
        plan2.headers.push(("if-range".into(), served_etag.clone().unwrap()));
        plan2.specs = Some(vec![spec]);
        plan2.has_if_range = true;
    }
    // A conditional request may also be a range request (without If-Range): the validators are
    // evaluated first and the answers demanded below stay the same.
    let mut plain_range = false;
    if !ir && meta.len > 0 && t.chance(1, 3) {
        let n = 1 + t.draw(3) as usize;
        let specs: Vec<_> = (0..n).map(|_| gen_spec(t, meta.len, true)).collect();
        plan2.headers.push(("range".into(), render_specs(t, &specs)));
        plan2.specs = Some(specs);
        plain_range = true;
    }
    let cfg2 = quiet_cfg(t);
    let ex2 = exchange(ctx, &meta, t2, &plan2, &cfg2);
    if ex2.any_panic().is_some() {
        ctx.stats.bump("runs_cut_short_by_a_panic_(reported_by_C13/C20)");
        return Ok(RunOut { sig: 0, nontrivial: false });
    }
    let hist = || {
        format!(
            "entity etag={:?} mtime_ns={:?}; GET at clock {t1} served ETag {:?} Last-Modified {:?}; then at clock {t2}: {} -> {}",
            meta.etag.as_ref().map(|e| String::from_utf8_lossy(e).to_string()),
            meta.mtime_ns,
            served_etag.as_ref().map(|e| String::from_utf8_lossy(e).to_string()),
            served_lm.as_ref().map(|e| String::from_utf8_lossy(e).to_string()),
            plan2.describe(),
            ex2.status
        )
    };
    if (im || ius) && ex2.status == 412 {
        return violation("C14", "echo-gives-412", hist());
    }
    if inm && ex2.status != 304 {
        return violation("C14", "echoed-etag-not-304", hist());
    }
    if !inm && ims && ex2.status != 304 {
        return violation("C14", "echoed-last-modified-not-304", hist());
    }
    if !inm && !ims && ir {
        if let Some(r) = &want_range {
            let want = format!("bytes {}-{}/{}", r.start, r.end - 1, meta.len);
            if ex2.status != 206 || ex2.hdr("content-range") != Some(want.as_bytes()) {
                return violation("C14", "if-range-echo-not-206", format!("{}; expected 206 with Content-Range: {want}, got {:?}", hist(), ex2.hdr("content-range").map(String::from_utf8_lossy)));
            }
        }
    }
    check_c14_headers(&ex2, &meta, &plan2, t2, "second")?;
    let st = &mut *ctx.stats;
    st.bump("c14_echo_histories");
    if inm { st.bump("c14_echo_if_none_match"); }
    if ims { st.bump("c14_echo_if_modified_since"); }
    if im { st.bump("c14_echo_if_match"); }
    if ius { st.bump("c14_echo_if_unmodified_since"); }
    if ir { st.bump("c14_echo_if_range"); }
    if plain_range { st.bump("c14_echo_with_plain_range_header"); }
    if meta.mtime_ns.map(|m| m % NS != 0).unwrap_or(false) { st.bump("c14_subsecond_mtime"); }
    let mut sig = mix(0xC14, ex1.status as u64);
    sig = mix(sig, ex2.status as u64);
    sig = mix(sig, (inm as u64) | (ims as u64) << 1 | (im as u64) << 2 | (ius as u64) << 3 | (ir as u64) << 4);
    sig = mix(sig, jump as u64 | (plain_range as u64) << 8);
    sig = mix(sig, meta.etag.as_ref().map(|e| 1 + e.starts_with(b"W/") as u64).unwrap_or(0));
    sig = mix(sig, meta.mtime_ns.map(|m| 1 + (m % NS != 0) as u64 + 2 * (m > t1) as u64).unwrap_or(0));
    if ctx.wants_sample() {
        ctx.sample = Some(json!({"history": hist(), "first_request": plan1.describe(), "first_status": ex1.status}));
    }
    Ok(RunOut { sig, nontrivial: true })
}

// ---------------------------------------------------------------- C15

fn run_c15(ctx: &mut Ctx) -> Result<RunOut, Violation> {
    let t = &mut ctx.tape;
    let t1 = gen_clock(t);
    let lb = [0u32, 1, 2][t.draw(3) as usize];
    let meta = Arc::new(gen_meta(t, t1, lb));
    let rk = ReqKnobs { methods: if t.chance(1, 10) { 2 } else { 0 }, ranges: [0u32, 1, 2][t.draw(3) as usize], conditionals: t.chance(1, 2), hostile: false };
    let plan = gen_request(t, &meta, t1, &rk);
    if plan.method != "GET" {
        // Any method: the mirror is defined for the request "sent with HEAD" instead.
    }
    let mut get = plan.clone();
    get.method = "GET".into();
    let mut head = plan.clone();
    head.method = "HEAD".into();
    let cfg = ExchangeCfg { policy: gen_policy(t), overpoll: 0, fresh_waker_p8: 0, knobs: gen_knobs(t, false), arm_fault: false, extra_faults: 0, clock_step_ns: 0 };
    let adv = [0u128, 1, NS, 3600 * NS][t.draw(4) as usize];
    let t2 = (t1 + adv).min((MAX_SECS as u128 - 1) * NS);
    let cfg_h = ExchangeCfg { policy: Policy::Drain, overpoll: 1, fresh_waker_p8: 0, knobs: StreamKnobs::default(), arm_fault: false, extra_faults: 0, clock_step_ns: 0 };
    // History on this thread before the pair: sometimes the *same* entity and ranges were just
    // requested with the opposite If-Range situation (a client probing with HEAD, say).
    let variant = ctx.tape.draw(3);
    if variant > 0 {
        let mut v = plan.clone();
        if v.has_if_range {
            v.headers.retain(|h| h.0 != "if-range");
            v.has_if_range = false;
        } else if let Some(e) = &meta.etag {
            v.headers.push(("if-range".into(), e.clone()));
            v.has_if_range = true;
        }
        v.method = if variant == 1 { "HEAD".into() } else { "GET".into() };
        let _ = exchange(ctx, &meta, t1, &v, &cfg_h);
        ctx.stats.bump("c15_variant_exchange_first");
    }
    let head_first = ctx.tape.chance(1, 2);
    let (exg, exh) = if head_first {
        let exh = exchange(ctx, &meta, t2, &head, &cfg_h);
        let exg = exchange(ctx, &meta, t1, &get, &cfg);
        (exg, exh)
    } else {
        let exg = exchange(ctx, &meta, t1, &get, &cfg);
        let exh = exchange(ctx, &meta, t2, &head, &cfg_h);
        (exg, exh)
    };
    ctx.stats.sim_time_ns += adv;
    if exg.any_panic().is_some() || exh.any_panic().is_some() {
        ctx.stats.bump("runs_cut_short_by_a_panic_(reported_by_C13/C20)");
        return Ok(RunOut { sig: 0, nontrivial: false });
    }
    let what = || format!("{} on entity len={}", plan.describe(), meta.len);
    if exh.status != exg.status {
        return violation("C15", "status-differs", format!("GET {} vs HEAD {}; {}", exg.status, exh.status, what()));
    }
    let norm = |ex: &Exchange| {
        let mut v: Vec<(String, Vec<u8>)> = ex.headers.iter().filter(|h| h.0 != "date" && h.0 != "last-modified").cloned().collect();
        v.sort();
        v
    };
    let (hg, hh) = (norm(&exg), norm(&exh));
    if hg != hh {
        let show = |v: &Vec<(String, Vec<u8>)>| v.iter().map(|(k, v)| format!("{k}: {}", String::from_utf8_lossy(v))).collect::<Vec<_>>();
        return violation("C15", "headers-differ", format!("GET {:?} vs HEAD {:?}; {}", show(&hg), show(&hh), what()));
    }
    for n in ["date", "last-modified"] {
        if exg.hdr(n).is_some() != exh.hdr(n).is_some() {
            return violation("C15", "headers-differ", format!("{n} present on only one of GET/HEAD; {}", what()));
        }
    }
    if !exh.calls.is_empty() {
        return violation("C15", "head-read-entity", format!("HEAD asked the entity for {:?}; {}", exh.calls, what()));
    }
    if matches!(exh.status, 200..=399 | 416) {
        if exh.log.total != 0 {
            return violation("C15", "head-body-not-empty", format!("HEAD {} body delivered {} bytes; {}", exh.status, exh.log.total, what()));
        }
        if let Some(s) = exh.log.initial.as_ref() {
            if s.lower != 0 || s.upper != Some(0) {
                return violation("C15", "head-hint-not-zero", format!("HEAD {} body size hint {}..{:?}; {}", exh.status, s.lower, s.upper, what()));
            }
        }
        if !exh.clean_end() {
            return violation("C15", "head-body-no-end", format!("HEAD {} body did not end; {}", exh.status, what()));
        }
    }
    let st = &mut *ctx.stats;
    st.bump("c15_pairs_compared");
    if exg.is_multipart() { st.bump("c15_multipart_pairs"); }
    if ctx.wants_sample() {
        ctx.sample = Some(json!({"request": plan.describe(), "status": exg.status, "get_headers": exg.headers.len(), "head_reads": exh.calls.len()}));
    }
    let sig = mix(base_sig(&exg, &meta, &plan), adv as u64);
    Ok(RunOut { sig, nontrivial: true })
}

#[allow(dead_code)]
fn unused(_: SimData, _: SimError) {}
