//! System-call seam: the simulator binary interposes `lseek`, `read` and `pread` (the executable's
//! own definitions take precedence over libc's). On threads that registered a scheduler and a
//! tracked file descriptor, every such call on that descriptor is a scheduling point of the baton
//! scheduler *before* the real system call runs; everywhere else the functions pass straight
//! through. This is what lets two streams over one open file be interleaved between a seek and
//! the read that follows it.

use crate::sched::Sched;
use std::cell::Cell;
use std::sync::atomic::{AtomicU64, Ordering};

thread_local! {
    static FD: Cell<i32> = const { Cell::new(-1) };
    static SCHED: Cell<*const Sched> = const { Cell::new(std::ptr::null()) };
}

pub static INTERCEPTED: AtomicU64 = AtomicU64::new(0);

/// Registers the calling thread: calls on `fd` become scheduling points of `sched`.
/// The caller keeps `sched` alive until `unregister`.
pub fn register(fd: i32, sched: &Sched) {
    FD.with(|f| f.set(fd));
    SCHED.with(|s| s.set(sched as *const Sched));
}

pub fn unregister() {
    FD.with(|f| f.set(-1));
    SCHED.with(|s| s.set(std::ptr::null()));
}

#[inline]
fn point(fd: i32, tag: &'static str, a: u64) {
    let tracked = FD.try_with(|f| f.get()).unwrap_or(-1);
    if tracked < 0 || tracked != fd {
        return;
    }
    let p = SCHED.try_with(|s| s.get()).unwrap_or(std::ptr::null());
    if p.is_null() {
        return;
    }
    INTERCEPTED.fetch_add(1, Ordering::Relaxed);
    // SAFETY: registered by a job that keeps the Arc<Sched> alive until it unregisters.
    unsafe { (*p).yield_point(tag, a) };
}

#[no_mangle]
pub unsafe extern "C" fn lseek64(fd: libc::c_int, off: i64, whence: libc::c_int) -> i64 {
    point(fd, "sys-lseek", off as u64);
    libc::syscall(libc::SYS_lseek, fd, off, whence) as i64
}

#[no_mangle]
pub unsafe extern "C" fn lseek(fd: libc::c_int, off: i64, whence: libc::c_int) -> i64 {
    point(fd, "sys-lseek", off as u64);
    libc::syscall(libc::SYS_lseek, fd, off, whence) as i64
}

#[no_mangle]
pub unsafe extern "C" fn read(fd: libc::c_int, buf: *mut libc::c_void, n: libc::size_t) -> libc::ssize_t {
    point(fd, "sys-read", n as u64);
    libc::syscall(libc::SYS_read, fd, buf, n) as libc::ssize_t
}

#[no_mangle]
pub unsafe extern "C" fn pread64(fd: libc::c_int, buf: *mut libc::c_void, n: libc::size_t, off: i64) -> libc::ssize_t {
    point(fd, "sys-pread", off as u64);
    libc::syscall(libc::SYS_pread64, fd, buf, n, off) as libc::ssize_t
}

#[no_mangle]
pub unsafe extern "C" fn pread(fd: libc::c_int, buf: *mut libc::c_void, n: libc::size_t, off: i64) -> libc::ssize_t {
    point(fd, "sys-pread", off as u64);
    libc::syscall(libc::SYS_pread64, fd, buf, n, off) as libc::ssize_t
}
