//! Engine B — chunk-sim: operation-granularity histories over the real
//! `streaming_body(..).build()` pair (BodyWriter + Body). Decides C08 C09 C11(sequential part)
//! C17, contributes to C12 C15 C20.

use crate::a_drain::{new_waker, DrainLog, Sample, SimBody, Step};
use crate::alloc_count::live_bytes;
use crate::core::{catch, violation, Ctx, RunOut, Violation};
use crate::engine_a::check_hints;
use crate::inflate::{gunzip_prefix, GzState};
use crate::simdata::{ebyte, SimData, SimError};
use crate::tape::{hash_str, mix, Tape};
use bytes::Buf;
use http_body::Body as _;
use http_serve::BodyWriter;
use serde_json::json;
use std::io::Write;
use std::pin::Pin;
use std::task::{Context, Poll};

type W = BodyWriter<SimData, SimError>;

const AE: &[(&str, &str)] = &[
    ("none", ""),
    ("gzip", "gzip"),
    ("gzip-deflate-br", "gzip, deflate, br"),
    ("identity", "identity"),
    ("gzip-q0", "gzip;q=0"),
    ("star", "*"),
    ("star-q0", "*;q=0"),
    ("gzip-lower", "identity;q=1.0, gzip;q=0.5"),
    ("gzip-higher", "identity;q=0.5, gzip;q=1.0"),
    ("deflate-only", "deflate"),
    ("gzip-q001", "gzip;q=0.001"),
    ("garbage", "gzip;q=2"),
    ("empty", ""),
    // the same values in another letter case (content-coding names are case-insensitive in the
    // RFC; whatever should_gzip decides for them is the reference here)
    ("GZIP-upper", "GZIP"),
    ("gzip-higher-mixed-case", "Identity;q=0.5, Gzip;q=1.0"),
    ("gzip-lower-mixed-case", "IDENTITY;q=1.0, GZIP;q=0.5"),
    ("gzip-deflate-br-upper", "GZIP, DEFLATE, BR"),
    ("gzip-spaces", " gzip ; q=1.0 , identity ; q=0.5 "),
    // every branch of the qvalue grammar (two digits, four digits, no digits, q=1.000)
    ("gzip-q2digits", "gzip;q=0.05, identity;q=0.04"),
    ("gzip-q2digits-lower", "gzip;q=0.04, identity;q=0.05"),
    ("gzip-q4digits", "gzip;q=0.0001"),
    ("gzip-q1000", "gzip;q=1.000, identity;q=0."),
    ("identity-q0-star", "identity;q=0, *;q=0.5"),
    // opaque bytes (obs-text) are legal in a field value
    ("non-utf8", "gzip, \u{0}"),
];

const OTHER: &[(&str, &str)] = &[
    ("accept", "text/event-stream"),
    ("accept", "text/html,application/xhtml+xml;q=0.9,*/*;q=0.8"),
    ("te", "trailers, gzip"),
    ("connection", "close"),
    ("connection", "keep-alive, upgrade"),
    ("upgrade", "websocket"),
    ("cache-control", "no-transform"),
    ("range", "bytes=0-99"),
    ("user-agent", "Mozilla/4.08 [en] (Win98; I ;Nav)"),
    ("via", "1.0 proxy"),
    ("content-encoding", "gzip"),
    ("accept-charset", "utf-8"),
    ("x-requested-with", "XMLHttpRequest"),
    ("content-length", "0"),
    ("if-none-match", "*"),
    ("expect", "100-continue"),
];

#[derive(Clone)]
struct Cfg {
    chunk: usize,
    level: u32,
    /// Builder calls made before the final ones (the last call of each kind wins).
    earlier_levels: Vec<u32>,
    earlier_chunks: Vec<usize>,
    ae: usize,
    /// A generated Accept-Encoding value (used instead of the table entry `ae` when present).
    ae_text: Option<String>,
    ae_second_line: Option<usize>,
    ae_present: bool,
    method: &'static str,
    /// Other request fields an application sees next to Accept-Encoding (bit mask over OTHER)
    /// and the request's HTTP version; neither may change what the coding headers promise.
    other: u32,
    version: u32,
    as_parts: bool,
    payload: u32,
    seed: u64,
}

fn gen_cfg(t: &mut Tape, focus: &str) -> Cfg {
    let chunk = match t.draw(10) {
        0 => 1,
        1 => 2,
        2 => 3,
        3 => 4,
        4 => 7,
        5 => 4096,
        6 => 65536,
        7 => 1 + t.draw(64) as usize,
        8 => 1 + t.draw(1000) as usize,
        _ => crate::dict::pick_in(t.draw(1 << 16), 1, 1 << 17).unwrap_or(16) as usize,
    };
    let (ae, ae_present, level) = match focus {
        "C08" => {
            // identity coding: either not negotiated or level 0
            if t.chance(1, 4) {
                (1, true, 0)
            } else {
                ([0usize, 3, 4, 6, 7, 9][t.draw(6) as usize], t.chance(3, 4), t.draw(10))
            }
        }
        "C09" => ([1usize, 2, 5, 8, 10][t.draw(5) as usize], true, 1 + t.draw(10)),
        _ => (t.draw(AE.len() as u32) as usize, !t.chance(1, 8), t.draw(11)),
    };
    let mut earlier_levels = Vec::new();
    let mut earlier_chunks = Vec::new();
    if matches!(focus, "C17" | "C15" | "C08" | "C09") {
        for _ in 0..t.draw(3) {
            earlier_levels.push([0u32, 0, 1, 6, 9][t.draw(5) as usize]);
        }
        for _ in 0..t.draw(2) {
            earlier_chunks.push([1usize, 5, 4096][t.draw(3) as usize]);
        }
    }
    // Half of the negotiation-minded runs use a generated value: 1-4 codings out of a small
    // alphabet, each with an optional quality, in any order. Whatever should_gzip decides for it
    // is the reference (C17's own words), so no value needs an expected answer here.
    let ae_text = if matches!(focus, "C17" | "C15") && t.chance(1, 2) {
        let n = 1 + t.draw(4);
        let mut parts = Vec::new();
        for _ in 0..n {
            let coding = ["gzip", "identity", "*", "deflate", "br", "x-gzip", "GZIP", "gzip"][t.draw(8) as usize];
            let q = ["", ";q=0", ";q=0.001", ";q=0.2", ";q=0.5", ";q=0.8", ";q=0.9", ";q=1", ";q=1.000", "; q=0.5", ";Q=0.5"][t.draw(11) as usize];
            parts.push(format!("{coding}{q}"));
        }
        Some(parts.join([", ", ",", " , "][t.draw(3) as usize]))
    } else {
        None
    };
    Cfg {
        chunk,
        level,
        earlier_levels,
        earlier_chunks,
        ae,
        ae_text,
        ae_second_line: if matches!(focus, "C17" | "C15") && t.chance(1, 6) { Some(1 + t.draw(AE.len() as u32 - 1) as usize) } else { None },
        ae_present: ae_present && ae != 0,
        method: match focus {
            "C17" | "C15" => ["GET", "HEAD", "POST", "GET", "PUT"][t.draw(5) as usize],
            _ => "GET",
        },
        other: if matches!(focus, "C17" | "C15" | "C09" | "C08") && t.chance(1, 3) {
            (1 << t.draw(OTHER.len() as u32)) | if t.chance(1, 2) { 1 << t.draw(OTHER.len() as u32) } else { 0 }
        } else {
            0
        },
        version: if t.chance(1, 4) { 1 + t.draw(3) } else { 0 },
        as_parts: t.chance(1, 2),
        payload: t.draw(4),
        seed: t.draw(u32::MAX) as u64,
    }
}

fn payload_byte(kind: u32, seed: u64, p: u64) -> u8 {
    match kind {
        0 => ebyte(seed, p),                          // incompressible
        1 => (p / 97 % 251) as u8,                    // long runs
        2 => b"the quick brown fox "[(p % 20) as usize] ^ ((p / 4096) as u8 & 1), // text-like
        _ => {
            if (p / 512) % 2 == 0 {
                ebyte(seed, p)
            } else {
                0
            }
        }
    }
}

fn ae_value(i: usize) -> http::HeaderValue {
    if AE[i].0 == "non-utf8" {
        return http::HeaderValue::from_bytes(b"gzip, \xff\xfe").unwrap();
    }
    http::HeaderValue::from_str(AE[i].1).unwrap()
}

fn builder_call_order(cfg: &Cfg) -> u64 {
    mix(cfg.seed ^ 0xB01D, cfg.chunk as u64)
}

fn build(cfg: &Cfg) -> (http::Response<SimBody>, Option<W>, bool) {
    let mut b = http::Request::builder().method(cfg.method).uri("/s").version(match cfg.version {
        1 => http::Version::HTTP_10,
        2 => http::Version::HTTP_2,
        3 => http::Version::HTTP_3,
        _ => http::Version::HTTP_11,
    });
    for (i, (k, v)) in OTHER.iter().enumerate() {
        if cfg.other & (1 << i) != 0 {
            b = b.header(*k, *v);
        }
    }
    if cfg.ae_present {
        b = match &cfg.ae_text {
            Some(v) => b.header("accept-encoding", v.as_str()),
            None => b.header("accept-encoding", ae_value(cfg.ae)),
        };
        // Some proxies split one field into several lines; should_gzip (the reference) looks at
        // the first line only.
        if let Some(second) = cfg.ae_second_line {
            b = b.header("accept-encoding", ae_value(second));
        }
    }
    let req = b.body(()).unwrap();
    let expect_gzip = http_serve::should_gzip(req.headers()) && cfg.level > 0;
    let configure = |mut b: http_serve::StreamingBodyBuilder| {
        // The calls of each kind stay in their order (the last one of a kind is the configured
        // value); how the two kinds interleave is part of the history. It is derived from the
        // already drawn content seed, so that recorded tapes keep their meaning.
        let mut levels: std::collections::VecDeque<u32> = cfg.earlier_levels.iter().copied().chain([cfg.level]).collect();
        let mut chunks: std::collections::VecDeque<usize> = cfg.earlier_chunks.iter().copied().chain([cfg.chunk]).collect();
        let mut bits = builder_call_order(cfg);
        while !levels.is_empty() || !chunks.is_empty() {
            let take_level = if levels.is_empty() { false } else if chunks.is_empty() { true } else { bits & 1 == 1 };
            bits >>= 1;
            if take_level {
                b = b.with_gzip_level(levels.pop_front().unwrap());
            } else {
                b = b.with_chunk_size(chunks.pop_front().unwrap());
            }
        }
        b
    };
    let (resp, w) = if cfg.as_parts {
        let (parts, _) = req.into_parts();
        configure(http_serve::streaming_body(&parts)).build::<SimData, SimError>()
    } else {
        configure(http_serve::streaming_body(&req)).build::<SimData, SimError>()
    };
    (resp, w, expect_gzip)
}

struct Sim {
    body: Option<Pin<Box<SimBody>>>,
    w: Option<W>,
    cfg: Cfg,
    gzip: bool,
    accepted: Vec<u8>,
    /// Raw frame bytes delivered so far.
    delivered: Vec<u8>,
    log: DrainLog,
    aborted: bool,
    accepted_unknown: bool,
    writer_dead: bool,
    /// Set once the body has been dropped; ops invoked afterwards are judged by C11.
    body_gone: bool,
    accepted_after_body_drop: usize,
    first_fail_after_drop: bool,
    abort_at_step: Option<usize>,
    /// hyper's HTTP/1 framing: when the body's size hint is exact at the moment the response
    /// head is written, hyper sends Content-Length and stops reading the body after that many
    /// bytes. None = not decided yet; Some(None) = chunked; Some(Some(n)) = n bytes.
    hyper_framing: bool,
    framing: Option<Option<u64>>,
    /// Lower bound of bytes surely sitting unflushed in the raw writer (None = unknown).
    unflushed: Option<usize>,
    /// Bytes accepted since the last successful flush (any coding).
    since_flush: usize,
    /// Bytes handed to write / write_vectored / write_all calls since the stream was last seen
    /// complete (start, or a flush after which everything accepted was decodable).
    given_since_complete: usize,
    /// Bytes accepted by writes invoked after the body was dropped and not yet followed by a flush.
    ok_after_drop_unflushed: usize,
    frames: u64,
    empty_frames: u64,
    ops: Vec<String>,
    panic: Option<String>,
    /// The waker handed to the last poll was woken before that poll returned.
    self_woken: bool,
}

impl Sim {
    fn decoded(&self) -> (Vec<u8>, GzState) {
        if self.gzip {
            gunzip_prefix(&self.delivered)
        } else {
            (self.delivered.clone(), GzState::Streaming)
        }
    }

    fn sample(&mut self) -> Option<Sample> {
        let b = self.body.as_ref()?;
        match catch(|| {
            let h = b.size_hint();
            (h.lower(), h.upper(), b.is_end_stream())
        }) {
            Ok((lower, upper, eos)) => Some(Sample { lower, upper, eos }),
            Err(p) => {
                self.panic = Some(format!("size_hint/is_end_stream panicked: {p}"));
                None
            }
        }
    }

    /// One poll (with its sample). Returns the step.
    fn poll(&mut self) -> Option<Step> {
        let s = self.sample()?;
        if self.hyper_framing {
            if self.framing.is_none() {
                self.framing = Some(if s.upper == Some(s.lower) { Some(s.lower) } else { None });
            }
            if let Some(Some(n)) = self.framing {
                if self.log.terminal.is_none() && self.log.total >= n as u128 {
                    // Content-Length satisfied: hyper is done with this body.
                    if self.log.stopped_by_eos.is_none() {
                        self.log.stopped_by_eos = Some(self.log.steps.len());
                    }
                    return None;
                }
            }
        }
        let body = self.body.as_mut()?;
        let (flag, waker) = new_waker();
        let mut cx = Context::from_waker(&waker);
        let r = catch(|| body.as_mut().poll_frame(&mut cx));
        // A body may answer Pending after waking the task itself (a cooperative yield): that is
        // "poll me again", not "nothing is available".
        self.self_woken = flag.woken.load(std::sync::atomic::Ordering::SeqCst);
        let after = self.log.terminal.is_some();
        let step = match r {
            Err(p) => {
                self.panic = Some(format!("poll_frame panicked: {p}"));
                Step::Panic(p)
            }
            Ok(Poll::Pending) => Step::Pending,
            Ok(Poll::Ready(None)) => Step::End,
            Ok(Poll::Ready(Some(Err(e)))) => Step::Err(format!("{e:?}")),
            Ok(Poll::Ready(Some(Ok(f)))) => match f.into_data() {
                Ok(mut d) => {
                    let n = d.remaining();
                    if after {
                        if n > 0 {
                            self.log.data_after_terminal += 1;
                        }
                    } else {
                        self.frames += 1;
                        if n == 0 {
                            self.empty_frames += 1;
                        }
                        while d.has_remaining() {
                            let c = d.chunk();
                            let l = c.len();
                            self.delivered.extend_from_slice(c);
                            d.advance(l);
                        }
                        self.log.total += n as u128;
                    }
                    Step::Data(n as u64)
                }
                Err(_) => Step::Err("trailers".into()),
            },
        };
        let idx = self.log.steps.len();
        if self.log.initial.is_none() {
            self.log.initial = Some(s.clone());
        }
        self.log.steps.push((s, step.clone()));
        if matches!(step, Step::End | Step::Err(_) | Step::Panic(_)) && self.log.terminal.is_none() {
            self.log.terminal = Some(idx);
        }
        Some(step)
    }

    fn poll_until_pending(&mut self) {
        let mut yields = 0;
        for _ in 0..2_000_000 {
            match self.poll() {
                Some(Step::Data(_)) => yields = 0,
                Some(Step::Pending) if self.self_woken && yields < 10_000 => yields += 1,
                _ => break,
            }
        }
    }

    fn gen_bytes(&self, n: usize) -> Vec<u8> {
        let p0 = self.accepted.len() as u64;
        (0..n as u64).map(|i| payload_byte(self.cfg.payload, self.cfg.seed, p0 + i)).collect()
    }

    /// One `write` call; returns Ok(k) / Err.
    fn write(&mut self, n: usize) -> Option<Result<usize, String>> {
        let buf = self.gen_bytes(n);
        self.given_since_complete += n;
        let w = self.w.as_mut()?;
        let r = match catch(|| w.write(&buf)) {
            Ok(r) => r.map_err(|e| e.to_string()),
            Err(p) => {
                self.panic = Some(format!("write panicked: {p}"));
                return None;
            }
        };
        match &r {
            Ok(k) => {
                let k = (*k).min(n);
                self.accepted.extend_from_slice(&buf[..k]);
                self.since_flush += k;
                if self.body_gone {
                    self.accepted_after_body_drop += k;
                    self.ok_after_drop_unflushed += k;
                }
                if !self.gzip {
                    self.unflushed = match self.unflushed {
                        Some(u) if u + k < self.cfg.chunk => Some(u + k),
                        _ => None,
                    };
                }
            }
            Err(_) => {
                self.writer_dead = true;
                self.unflushed = None;
            }
        }
        Some(r)
    }

    /// One `write_vectored` call over slices of the given sizes; Ok(k) counts bytes of the
    /// concatenation, as std documents.
    fn write_vectored(&mut self, sizes: &[usize]) -> Option<Result<usize, String>> {
        let n: usize = sizes.iter().sum();
        let buf = self.gen_bytes(n);
        self.given_since_complete += n;
        let mut slices = Vec::new();
        let mut o = 0;
        for &l in sizes {
            slices.push(std::io::IoSlice::new(&buf[o..o + l]));
            o += l;
        }
        let w = self.w.as_mut()?;
        let r = match catch(|| w.write_vectored(&slices)) {
            Ok(r) => r.map_err(|e| e.to_string()),
            Err(p) => {
                self.panic = Some(format!("write_vectored panicked: {p}"));
                return None;
            }
        };
        match &r {
            Ok(k) => {
                let k = (*k).min(n);
                self.accepted.extend_from_slice(&buf[..k]);
                self.since_flush += k;
                if self.body_gone {
                    self.accepted_after_body_drop += k;
                    self.ok_after_drop_unflushed += k;
                }
                self.unflushed = None;
            }
            Err(_) => {
                self.writer_dead = true;
                self.unflushed = None;
            }
        }
        Some(r)
    }

    fn flush(&mut self) -> Option<Result<(), String>> {
        let w = self.w.as_mut()?;
        let r = match catch(|| w.flush()) {
            Ok(r) => r.map_err(|e| e.to_string()),
            Err(p) => {
                self.panic = Some(format!("flush panicked: {p}"));
                return None;
            }
        };
        match &r {
            Ok(()) => {
                self.unflushed = Some(0);
                self.since_flush = 0;
                self.ok_after_drop_unflushed = 0;
            }
            Err(_) => {
                self.writer_dead = true;
                self.unflushed = None;
            }
        }
        Some(r)
    }
}

fn finish_log(sim: &Sim) -> (bool, bool) {
    let clean = matches!(sim.log.terminal.map(|i| &sim.log.steps[i].1), Some(Step::End));
    let errored = matches!(sim.log.terminal.map(|i| &sim.log.steps[i].1), Some(Step::Err(_)));
    (clean, errored)
}

/// See the F6 classification in the flush arm.
const F6_MIN_CALL: usize = 30_000;

pub fn run(ctx: &mut Ctx) -> Result<RunOut, Violation> {
    let focus = ctx.focus;
    if focus == "C11" && ctx.tape.chance(1, 10) {
        return run_release(ctx);
    }
    if matches!(focus, "C08" | "C11") && ctx.tape.chance(1, if crate::core::deep() { 4000 } else { 1500 }) {
        return run_big_backlog(ctx);
    }
    // Fixed warm-up build (any per-thread memory of the negotiation starts from a known value),
    // then, half of the time, a complete earlier response on this thread with its own drawn
    // configuration: state carried from an earlier call is part of the history.
    {
        let warm = Cfg { chunk: 16, level: 6, earlier_levels: Vec::new(), earlier_chunks: Vec::new(), ae: 9, ae_text: None, ae_second_line: None, ae_present: true, method: "GET", other: 0, version: 0, as_parts: false, payload: 0, seed: 0 };
        let _ = catch(|| drop(build(&warm)));
    }
    let cfg = gen_cfg(&mut ctx.tape, focus);
    if ctx.tape.chance(1, 2) {
        // The earlier response has a small history of its own, and half of the time the very
        // configuration of the response under test (whatever a change may pool or memoise per
        // level, chunk size or negotiation is then shared). It may end like any response can:
        // writer first (clean), client gone first (writes and the finishing flush fail), abort.
        let t = &mut ctx.tape;
        let pre = if t.chance(1, 2) { cfg.clone() } else { gen_cfg(t, "C17") };
        let n_writes = t.draw(4);
        let sizes: Vec<usize> = (0..n_writes).map(|_| [1usize, 31, pre.chunk, 3 * pre.chunk + 1, 5000][t.draw(5) as usize].min(70_000)).collect();
        let flush_mid = t.chance(1, 2);
        let ending = t.draw(4); // 0,1 = clean; 2 = body dropped first; 3 = abort
        let _ = catch(|| {
            let (resp, w, _) = build(&pre);
            let mut resp = Some(resp);
            if let Some(mut w) = w {
                for (i, n) in sizes.iter().enumerate() {
                    let buf: Vec<u8> = (0..*n as u64).map(|p| payload_byte(0, pre.seed ^ 0x9E, p + i as u64 * 7)).collect();
                    let _ = w.write_all(&buf);
                    if flush_mid && i == 0 {
                        let _ = w.flush();
                    }
                }
                match ending {
                    2 => {
                        drop(resp.take());
                        let _ = w.write_all(b"written after the client went away");
                        let _ = w.flush();
                        drop(w);
                    }
                    3 => {
                        w.abort(SimError::Injected(3));
                        drop(w);
                    }
                    _ => drop(w),
                }
            }
            drop(resp);
        });
        ctx.stats.bump("prelude_builds");
        if ending >= 2 {
            ctx.stats.bump("prelude_responses_ending_in_a_fault");
        }
    }
    http_serve::verif::reset_chunker_bytes();
    let built = catch(|| build(&cfg));
    let (resp, w, expect_gzip) = match built {
        Ok(v) => v,
        Err(p) => {
            // Every generated configuration is inside the properties' stated domain (chunk size
            // >= 1, level 0..=10): no body at all is a failure of what C08/C09/C17 promise.
            return if matches!(focus, "C17" | "C08" | "C09") {
                violation(focus_static(focus), "build-panic", format!("streaming_body(..).build() panicked for chunk={} level={}: {p}", cfg.chunk, cfg.level))
            } else {
                Ok(RunOut { sig: 0, nontrivial: false })
            }
        }
    };
    let vary: Vec<String> = resp.headers().get_all("vary").iter().map(|v| String::from_utf8_lossy(v.as_bytes()).to_ascii_lowercase()).collect();
    let ce: Vec<String> = resp.headers().get_all("content-encoding").iter().map(|v| String::from_utf8_lossy(v.as_bytes()).to_ascii_lowercase()).collect();
    let hdr_gzip = ce.iter().any(|v| v.split(',').any(|t| t.trim() == "gzip"));
    let mut all_headers: Vec<(String, Vec<u8>)> = resp.headers().iter().map(|(k, v)| (k.as_str().to_string(), v.as_bytes().to_vec())).collect();
    all_headers.sort();
    let has_writer = w.is_some();
    ctx.ev("build", cfg.chunk as u64, (cfg.level as u64) << 8 | hdr_gzip as u64);
    let mut sim = Sim {
        body: Some(Box::pin(resp.into_body())),
        w,
        gzip: hdr_gzip,
        accepted: Vec::new(),
        delivered: Vec::new(),
        log: DrainLog::default(),
        aborted: false,
        accepted_unknown: false,
        writer_dead: false,
        body_gone: false,
        accepted_after_body_drop: 0,
        first_fail_after_drop: false,
        abort_at_step: None,
        hyper_framing: false,
        framing: None,
        unflushed: Some(0),
        since_flush: 0,
        given_since_complete: 0,
        ok_after_drop_unflushed: 0,
        frames: 0,
        empty_frames: 0,
        ops: Vec::new(),
        panic: None,
        self_woken: false,
        cfg,
    };
    if focus == "C11" && ctx.tape.chance(1, 2) {
        sim.hyper_framing = true;
    }

    let cfg_desc = format!(
        "chunk={} level={}{} accept-encoding={} method={}{} repr={} payload={}",
        sim.cfg.chunk,
        sim.cfg.level,
        if sim.cfg.earlier_levels.is_empty() && sim.cfg.earlier_chunks.is_empty() { String::new() } else { format!(" (after earlier builder calls levels {:?} chunks {:?}, interleaving bits {:b})", sim.cfg.earlier_levels, sim.cfg.earlier_chunks, builder_call_order(&sim.cfg) & 0x3f) },
        if sim.cfg.ae_present { format!("{}{}", sim.cfg.ae_text.as_ref().map(|v| format!("{v:?}")).unwrap_or_else(|| AE[sim.cfg.ae].0.to_string()), sim.cfg.ae_second_line.map(|l| format!(" + second line {}", AE[l].0)).unwrap_or_default()) } else { "absent".to_string() },
        sim.cfg.method,
        {
            let o: Vec<String> = OTHER.iter().enumerate().filter(|(i, _)| sim.cfg.other & (1 << i) != 0).map(|(_, (k, v))| format!("{k}: {v}")).collect();
            format!("{}{}", if o.is_empty() { String::new() } else { format!(" +[{}]", o.join(" | ")) }, ["", " HTTP/1.0", " HTTP/2", " HTTP/3"][sim.cfg.version as usize])
        },
        if sim.cfg.as_parts { "Parts" } else { "Request" },
        sim.cfg.payload
    );

    // ---- C17 / C15 header clauses (pure inspection of what build() returned).
    if focus == "C17" {
        if !vary.iter().any(|v| v.split(',').any(|t| t.trim() == "accept-encoding")) {
            return violation("C17", "vary-missing", format!("{cfg_desc}: Vary is {vary:?}"));
        }
        if hdr_gzip != expect_gzip {
            return violation("C17", "content-encoding-vs-negotiation", format!("{cfg_desc}: should_gzip && level>0 is {expect_gzip} but Content-Encoding is {ce:?}"));
        }
    }
    if sim.cfg.method == "HEAD" {
        if has_writer {
            return if matches!(focus, "C15" | "C17") {
                violation(if focus == "C15" { "C15" } else { "C17" }, "head-got-writer", format!("{cfg_desc}: streaming_body returned a writer for HEAD"))
            } else {
                Ok(RunOut { sig: 0, nontrivial: false })
            };
        }
        // Same headers as the GET twin, body delivers nothing.
        let twin = Cfg { method: "GET", other: sim.cfg.other, version: sim.cfg.version, ae_second_line: sim.cfg.ae_second_line, earlier_levels: sim.cfg.earlier_levels.clone(), earlier_chunks: sim.cfg.earlier_chunks.clone(), chunk: sim.cfg.chunk, level: sim.cfg.level, ae: sim.cfg.ae, ae_text: sim.cfg.ae_text.clone(), ae_present: sim.cfg.ae_present, as_parts: sim.cfg.as_parts, payload: 0, seed: sim.cfg.seed };
        let (gresp, _gw, _) = build(&twin);
        let hs = |r: &http::HeaderMap| {
            let mut v: Vec<(String, Vec<u8>)> = r.iter().map(|(k, v)| (k.as_str().to_string(), v.as_bytes().to_vec())).collect();
            v.sort();
            v
        };
        sim.poll_until_pending();
        let (clean, _) = finish_log(&sim);
        if focus == "C15" {
            if hs(gresp.headers()) != all_headers {
                return violation("C15", "streaming-head-headers", format!("{cfg_desc}: HEAD headers vary={vary:?} ce={ce:?} differ from GET's {:?}", gresp.headers()));
            }
            if let Some(i) = &sim.log.initial {
                if i.lower != 0 || !i.eos {
                    return violation("C15", "streaming-head-body", format!("{cfg_desc}: HEAD body starts with size hint {}..{:?}, is_end_stream {}", i.lower, i.upper, i.eos));
                }
            }
            if !sim.delivered.is_empty() || !clean {
                return violation("C15", "streaming-head-body", format!("{cfg_desc}: HEAD body delivered {} bytes, clean end = {clean}", sim.delivered.len()));
            }
        }
        ctx.stats.bump("b_head_requests");
        return Ok(RunOut { sig: mix(0xB4EAD, hash_str(&cfg_desc)), nontrivial: matches!(focus, "C15" | "C17") });
    }
    if !has_writer {
        return if focus == "C17" {
            violation("C17", "no-writer", format!("{cfg_desc}: no writer for a non-HEAD method"))
        } else {
            Ok(RunOut { sig: 0, nontrivial: false })
        };
    }

    // ---- The history.
    let want_abort = matches!(focus, "C11" | "C20" | "C12") && ctx.tape.chance(if focus == "C11" { 2 } else { 1 }, 4);
    // Body drop: alone, or (one abort run in three) together with the abort, in either order -
    // "after abort every later write or flush fails" holds whether or not the client is still there.
    let want_body_drop = focus == "C11" && ctx.tape.chance(if want_abort { 1 } else { 2 }, 3);
    // Swarm: half of the runs use a restricted mix - a random subset of the operation kinds
    // and one class of write sizes - and are longer; patterns such as "many tiny flushed writes
    // and then the chunk boundary" are common there and all but absent from a uniform mix.
    // Groups: bit 0 write, 1 write_all / write_vectored, 2 flush, 3 poll, 4 drain.
    let swarm = ctx.tape.chance(1, 2);
    let (mut op_mask, size_class) = if swarm { (1 + ctx.tape.draw(31), ctx.tape.draw(4)) } else { (31, 0) };
    if op_mask & 3 == 0 {
        op_mask |= 1;
    }
    if swarm {
        ctx.stats.bump("b_swarm_runs_(restricted_operation_mix)");
    }
    let n_ops = 1 + ctx.tape.draw(if crate::core::deep() { 30 } else if swarm { 24 } else { 12 });
    let fault_at = ctx.tape.draw(n_ops + 1);
    let drop_at = if want_abort && want_body_drop { ctx.tape.draw(n_ops + 1) } else { fault_at };
    let mut flush_checks = 0u64;
    let mut kinds: Vec<&'static str> = Vec::new();
    let mut sig = mix(0xB0, hash_str(&cfg_desc));
    for opi in 0..=n_ops {
        if sim.panic.is_some() {
            break;
        }
        if opi == fault_at {
            if want_abort && sim.w.is_some() {
                let queued_before = sim.log.initial.is_some();
                let w = sim.w.as_mut().unwrap();
                if let Err(p) = catch(|| w.abort(SimError::Injected(7))) {
                    sim.panic = Some(format!("abort panicked: {p}"));
                    break;
                }
                sim.aborted = true;
                sim.abort_at_step = Some(sim.log.steps.len());
                sim.ops.push(format!("abort(polled_before={queued_before})"));
                ctx.stats.bump("fault_abort");
                sig = mix(sig, 0xAB0 + opi as u64);
            }
        }
        if opi == drop_at {
            if want_body_drop && sim.body.is_some() {
                if want_abort {
                    ctx.stats.bump("fault_abort_and_body_drop_in_one_run");
                }
                let b = sim.body.take();
                if let Err(p) = catch(move || drop(b)) {
                    sim.panic = Some(format!("dropping the body panicked: {p}"));
                    break;
                }
                sim.body_gone = true;
                sim.ops.push("drop(body)".into());
                ctx.stats.bump("fault_body_drop");
                sig = mix(sig, 0xD20 + opi as u64);
            }
        }
        if opi == n_ops {
            break;
        }
        let t = &mut ctx.tape;
        let group = |op: u32| [0u32, 0, 0, 1, 2, 2, 3, 4][op as usize];
        let mut op = t.draw(8);
        if op_mask != 31 {
            for _ in 0..6 {
                if op_mask & (1 << group(op)) != 0 {
                    break;
                }
                op = t.draw(8);
            }
            if op_mask & (1 << group(op)) == 0 {
                op = if op_mask & 1 != 0 { 0 } else { 3 };
            }
        }
        sig = mix(sig, op as u64);
        match op {
            0 | 1 | 2 => {
                // write(n), n in 0..3*chunk (bounded so that payloads stay small)
                let cap = sim.cfg.chunk;
                let nk = t.draw(6);
                let dict_n = if t.chance(1, 8) { crate::dict::pick_in(t.draw(1 << 16), 1, (cap as u64 * 300).clamp(4096, 200_000)).map(|v| v as usize) } else { None };
                // (gzip output of a tiny chunk size stays bounded too: at most ~300 frames per write)
                let dict_chunks = if cap <= 4096 && t.chance(1, 10) { crate::dict::pick_in(t.draw(1 << 16), 2, (200_000 / cap) as u64).map(|v| v as usize * cap) } else { None };
                let n = if let Some(v) = dict_n.or(dict_chunks) { v } else { match nk {
                    0 => 0,
                    1 => 1,
                    2 => cap,
                    3 => cap.saturating_sub(1),
                    4 => cap + 1,
                    _ => t.draw((3 * cap).min(200_000) as u32 + 1) as usize,
                } };
                let n = match size_class {
                    1 => 1 + t.draw((cap / 4).clamp(1, 50_000) as u32) as usize,
                    2 => (cap + t.draw(3) as usize).saturating_sub(1).max(1),
                    3 => 1 + t.draw((cap / 2).clamp(1, 100_000) as u32) as usize,
                    _ => n,
                };
                kinds.push(["w0", "w1", "wc", "wc-1", "wc+1", "w*"][nk as usize]);
                let live = !sim.aborted && !sim.writer_dead && !sim.body_gone;
                let after_drop = sim.body_gone;
                let dead_before = sim.writer_dead || sim.aborted;
                let Some(r) = sim.write(n) else { break };
                sim.ops.push(format!("write({n}) -> {r:?}"));
                ctx.ev("write", n as u64, r.as_ref().map(|k| *k as u64).unwrap_or(u64::MAX));
                match focus {
                    "C08" | "C09" => {
                        if live && n > 0 {
                            match &r {
                                Ok(0) => return violation(focus_static(focus), "write-accepted-nothing", format!("{cfg_desc}: write of {n} bytes to a live body returned Ok(0); ops {:?}", sim.ops)),
                                Err(e) => return violation(focus_static(focus), "write-failed-on-live-body", format!("{cfg_desc}: write of {n} bytes to a live body failed: {e}; ops {:?}", sim.ops)),
                                Ok(k) if *k > n => return violation(focus_static(focus), "write-accepted-too-much", format!("{cfg_desc}: write({n}) returned {k}")),
                                _ => {}
                            }
                        }
                    }
                    "C11" => {
                        if dead_before && r.is_ok() && n > 0 {
                            return violation("C11", "write-after-abort-or-failure-succeeded", format!("{cfg_desc}: ops {:?}", sim.ops));
                        }
                    }
                    _ => {}
                }
            }
            3 => {
                // write_all(n) as a loop over write, like std's.
                let n = if sim.cfg.chunk <= 512 && t.chance(1, 4) {
                    // a long backlog: 33..160 chunks in one go
                    sim.cfg.chunk * (33 + t.draw(128) as usize) + t.draw(sim.cfg.chunk as u32) as usize
                } else {
                    1 + t.draw((2 * sim.cfg.chunk).min(100_000) as u32 + 1) as usize
                };
                if t.chance(1, 4) {
                    // Write::write_vectored over two or three slices (std's default hands the
                    // first non-empty one to write(); an override has to get the count right).
                    kinds.push("wvec");
                    let cap = sim.cfg.chunk;
                    let k = 2 + t.draw(2) as usize;
                    let sizes: Vec<usize> = (0..k)
                        .map(|_| match t.draw(4) {
                            0 => t.draw(3) as usize,
                            1 => 1 + t.draw(64) as usize,
                            2 => 1 + t.draw((3 * cap).min(100_000) as u32) as usize,
                            _ => 20_000 + t.draw(100_000) as usize,
                        })
                        .collect();
                    let total: usize = sizes.iter().sum();
                    let live = !sim.aborted && !sim.writer_dead && !sim.body_gone;
                    let dead_before = sim.writer_dead || sim.aborted;
                    let Some(r) = sim.write_vectored(&sizes) else { break };
                    sim.ops.push(format!("write_vectored({sizes:?}) -> {r:?}"));
                    ctx.ev("write_vectored", total as u64, r.as_ref().map(|k| *k as u64).unwrap_or(u64::MAX));
                    ctx.stats.bump("b_write_vectored_calls");
                    match focus {
                        "C08" | "C09" if live && total > 0 => match &r {
                            Ok(0) => return violation(focus_static(focus), "write-accepted-nothing", format!("{cfg_desc}: write_vectored of {total} bytes to a live body returned Ok(0); ops {:?}", sim.ops)),
                            Err(e) => return violation(focus_static(focus), "write-failed-on-live-body", format!("{cfg_desc}: write_vectored to a live body failed: {e}; ops {:?}", sim.ops)),
                            Ok(k) if *k > total => return violation(focus_static(focus), "write-accepted-too-much", format!("{cfg_desc}: write_vectored({sizes:?}) returned {k}")),
                            _ => {}
                        },
                        "C11" if dead_before && r.is_ok() && total > 0 => {
                            return violation("C11", "write-after-abort-or-failure-succeeded", format!("{cfg_desc}: ops {:?}", sim.ops));
                        }
                        _ => {}
                    }
                    continue;
                }
                kinds.push("wall");
                if t.chance(1, 2) {
                    // The writer's own `write_all` (std's default unless the crate overrides it).
                    let buf = sim.gen_bytes(n);
                    sim.given_since_complete += n;
                    let live = !sim.aborted && !sim.writer_dead && !sim.body_gone;
                    let Some(w) = sim.w.as_mut() else { break };
                    let r = match catch(|| w.write_all(&buf)) {
                        Ok(r) => r.map_err(|e| e.to_string()),
                        Err(p) => {
                            sim.panic = Some(format!("write_all panicked: {p}"));
                            break;
                        }
                    };
                    sim.ops.push(format!("Write::write_all({n}) -> {r:?}"));
                    ctx.ev("real_write_all", n as u64, r.is_ok() as u64);
                    match &r {
                        Ok(()) => {
                            sim.accepted.extend_from_slice(&buf);
                            sim.since_flush += n;
                            if sim.body_gone {
                                sim.accepted_after_body_drop += n;
                                sim.ok_after_drop_unflushed += n;
                            }
                            sim.unflushed = None;
                        }
                        Err(_) => {
                            // How much was accepted before the failure is unknowable through
                            // this call: equality oracles are off for the rest of the run.
                            sim.writer_dead = true;
                            sim.accepted_unknown = true;
                            sim.unflushed = None;
                        }
                    }
                    if matches!(focus, "C08" | "C09") && live && r.is_err() {
                        return violation(focus_static(focus), "write-all-failed-on-live-body", format!("{cfg_desc}: ops {:?}", sim.ops));
                    }
                    continue;
                }
                let mut left = n;
                let mut guard = 0;
                while left > 0 && guard < 100_000 {
                    guard += 1;
                    match sim.write(left) {
                        Some(Ok(0)) | None => break,
                        Some(Ok(k)) => left -= k,
                        Some(Err(_)) => break,
                    }
                }
                sim.ops.push(format!("write_all({n}) left={left}"));
                ctx.ev("write_all", n as u64, left as u64);
                if matches!(focus, "C08" | "C09") && left > 0 && !sim.aborted && !sim.body_gone && sim.panic.is_none() {
                    return violation(focus_static(focus), "write-all-stalled", format!("{cfg_desc}: write_all({n}) could not finish on a live body; ops {:?}", sim.ops));
                }
            }
            4 | 5 => {
                kinds.push("flush");
                // Bytes this flush surely has to deal with, whatever the chunking policy: bytes
                // that a write invoked *after the body was dropped* reported as accepted. Either
                // they are still buffered (then this flush must hand them over and fail) or that
                // write completed a chunk (then it should have failed itself).
                let surely_unflushed = sim.ok_after_drop_unflushed > 0;
                let after_drop = sim.body_gone;
                let dead_before = sim.writer_dead || sim.aborted;
                let Some(r) = sim.flush() else { break };
                sim.ops.push(format!("flush -> {r:?}"));
                ctx.ev("flush", r.is_ok() as u64, 0);
                if focus == "C11" {
                    if dead_before && r.is_ok() {
                        return violation("C11", "flush-after-abort-or-failure-succeeded", format!("{cfg_desc}: ops {:?}", sim.ops));
                    }
                    if after_drop && r.is_ok() && surely_unflushed {
                        return violation("C11", "flush-after-body-drop-succeeded", format!("{cfg_desc}: a flush that had bytes to hand over succeeded after the body was dropped; ops {:?}", sim.ops));
                    }
                }
                // "After flush returns, every byte accepted so far is already available".
                if r.is_ok() && sim.body.is_some() && !sim.aborted && ctx.tape.chance(1, 2) {
                    sim.poll_until_pending();
                    sim.ops.push("drain-after-flush".into());
                    flush_checks += 1;
                    if matches!(focus, "C08" | "C09") {
                        let (dec, st) = sim.decoded();
                        if let GzState::Invalid(e) = &st {
                            return violation(focus_static(focus), "undecodable-after-flush", format!("{cfg_desc}: {e}; ops {:?}", sim.ops));
                        }
                        if dec == sim.accepted {
                            sim.given_since_complete = 0;
                        }
                        if dec != sim.accepted {
                            let detail = format!("{cfg_desc}: after flush {} bytes were accepted but the consumer can decode only {} (equal prefix {}); ops {:?}", sim.accepted.len(), dec.len(), common_prefix(&dec, &sim.accepted), sim.ops);
                            // Whose fault? The chunk writer counts (verif-hooks) every byte it
                            // accepted on this thread. If the consumer has received exactly that
                            // many raw bytes, http-serve handed over everything it was given: the
                            // missing tail is still inside the compressor in front of it.
                            // F6 (flate2's incomplete sync flush) needs flate2's 32 KiB output
                            // buffer to be full when the flush arrives, i.e. at least about that
                            // much input since the stream was last complete. A shortfall after
                            // less input is a different failure (e.g. a drive loop that does not
                            // drain the compressor) and is reported as the violation it is.
                            let big_call = sim.given_since_complete >= F6_MIN_CALL;
                            let same_as_flate2_alone = sim.gzip && http_serve::verif::chunker_bytes() == sim.delivered.len() as u64;
                            if same_as_flate2_alone && !big_call {
                                ctx.stats.bump("c09_withheld_after_small_calls_only");
                            }
                            if same_as_flate2_alone && big_call {
                                ctx.stats.bump("c09_compressor_withheld_bytes_after_flush");
                                ctx.report(Violation { prop: "C09", oracle: "compressor-withholds-flushed-bytes", msg: format!("the chunk writer handed over every byte it was given ({} bytes), the compressor withholds the rest; {detail}", sim.delivered.len()) })?;
                            } else {
                                return violation(focus_static(focus), "flushed-bytes-not-available", detail);
                            }
                        }
                    }
                }
            }
            6 => {
                kinds.push("poll");
                let s = sim.poll();
                sim.ops.push(format!("poll -> {s:?}"));
            }
            _ => {
                kinds.push("drain");
                sim.poll_until_pending();
                sim.ops.push("poll-until-pending".into());
            }
        }
    }

    // ---- C11: a writer whose body is gone must be told before it has buffered "without bound".
    // Tolerant bound (an implementation may round its chunk capacity up): 2 chunks + 8 KiB for
    // identity coding, one chunk + 1 MiB of incompressible input for gzip.
    if focus == "C11" && sim.body_gone && sim.panic.is_none() && sim.w.is_some() && !sim.writer_dead && !sim.aborted && (!sim.gzip || ctx.tape.chance(1, 4)) {
        let limit = if sim.gzip { sim.cfg.chunk + (1 << 20) } else { 2 * sim.cfg.chunk + 8192 };
        let piece = sim.cfg.chunk.clamp(64, 16_384);
        let saved_kind = sim.cfg.payload;
        sim.cfg.payload = 0; // incompressible
        let mut told = false;
        let mut guard = 0;
        // The bound is on what the probe itself writes (incompressible pieces): the history may
        // have fed the compressor megabytes of highly compressible input after the drop without
        // ever completing a chunk, which is not "buffering without bound".
        let probe_start = sim.accepted_after_body_drop;
        while sim.accepted_after_body_drop - probe_start <= limit && guard < 100_000 {
            guard += 1;
            match sim.write(piece) {
                Some(Ok(_)) => {}
                Some(Err(_)) => {
                    told = true;
                    break;
                }
                None => break,
            }
        }
        sim.cfg.payload = saved_kind;
        sim.ops.push(format!("probe: kept writing {piece}-byte pieces -> told={told} after {} bytes", sim.accepted_after_body_drop));
        ctx.stats.bump("c11_body_drop_probes");
        if !told && sim.panic.is_none() {
            return violation("C11", "writer-buffers-after-body-drop", format!("{cfg_desc}: {} incompressible bytes (after {probe_start} earlier ones) were accepted without a single error after the body was dropped (bound {limit}); ops {:?}", sim.accepted_after_body_drop - probe_start, sim.ops));
        }
    }

    // ---- Ending: drop the writer (if still there), drain, over-poll.
    let overpoll = match focus {
        "C20" => 1 + ctx.tape.draw(4),
        _ => 1 + ctx.tape.draw(2),
    };
    if sim.panic.is_none() {
        if let Some(w) = sim.w.take() {
            if let Err(p) = catch(move || drop(w)) {
                sim.panic = Some(format!("dropping the writer panicked: {p}"));
            }
            sim.ops.push("drop(writer)".into());
        }
    }
    if sim.panic.is_none() && sim.body.is_some() {
        sim.poll_until_pending();
        for _ in 0..overpoll {
            if sim.panic.is_some() {
                break;
            }
            sim.poll();
        }
    }
    let (clean, errored) = finish_log(&sim);
    ctx.ev("end", sim.delivered.len() as u64, sim.accepted.len() as u64);
    ctx.ev("steps", sim.log.steps.len() as u64, clean as u64 | (errored as u64) << 1);
    if ctx.tracing() {
        let ops = sim.ops.clone();
        let cd = cfg_desc.clone();
        ctx.note(|| format!("config: {cd}"));
        ctx.note(|| format!("ops: {ops:#?}"));
        let steps: Vec<String> = sim.log.steps.iter().take(80).map(|(s, st)| format!("[hint {}..{:?} eos={}] -> {:?}", s.lower, s.upper, s.eos, st)).collect();
        ctx.note(|| format!("polls: {steps:#?}"));
    }
    if ctx.wants_sample() {
        ctx.sample = Some(json!({"config": cfg_desc, "ops": sim.ops.iter().take(20).collect::<Vec<_>>(), "accepted": sim.accepted.len(), "delivered_raw": sim.delivered.len(), "gzip": sim.gzip, "frames": sim.frames}));
    }
    let st = &mut *ctx.stats;
    st.add("polls", sim.log.steps.len() as u64);
    st.add("frames", sim.frames);
    st.add("b_flush_availability_checks", flush_checks);
    if sim.gzip { st.bump("b_gzip_runs"); } else { st.bump("b_identity_runs"); }
    if sim.log.steps.iter().any(|s| s.1 == Step::Pending) { st.bump("b_consumer_saw_pending"); }

    if let Some(p) = &sim.panic {
        return match focus {
            "C20" if sim.log.terminal.is_some() => violation("C20", "panic-after-termination", format!("{cfg_desc}: {p}; ops {:?}", sim.ops)),
            "C08" | "C09" | "C11" | "C17" | "C12" => violation(focus_static(focus), "panic", format!("{cfg_desc}: {p}; ops {:?}", sim.ops)),
            _ => Ok(RunOut { sig, nontrivial: false }),
        };
    }

    match focus {
        "C08" | "C09" | "C17" => {
            if focus == "C08" && sim.gzip || focus == "C09" && !sim.gzip {
                return Ok(RunOut { sig, nontrivial: false }); // negotiation is C17's business
            }
            let p = focus_static(focus);
            if sim.body_gone || sim.aborted || sim.accepted_unknown {
                return Ok(RunOut { sig, nontrivial: false });
            }
            if sim.empty_frames > 0 && focus != "C17" {
                return violation(p, "empty-frame", format!("{cfg_desc}: {} empty data frames; ops {:?}", sim.empty_frames, sim.ops));
            }
            if !clean {
                return violation(p, "no-clean-end", format!("{cfg_desc}: writer dropped but the body did not end cleanly (terminal {:?}); ops {:?}", sim.log.terminal.map(|i| &sim.log.steps[i].1), sim.ops));
            }
            let (dec, gst) = sim.decoded();
            if sim.gzip {
                match gst {
                    GzState::Complete { trailing: 0 } => {}
                    other => return violation(p, "not-one-gzip-member", format!("{cfg_desc}: final body is {other:?} ({} raw bytes); ops {:?}", sim.delivered.len(), sim.ops)),
                }
            }
            if dec != sim.accepted {
                return violation(
                    p,
                    "delivered-differs-from-accepted",
                    format!("{cfg_desc}: accepted {} bytes, client decoded {} (equal prefix {}); ops {:?}", sim.accepted.len(), dec.len(), common_prefix(&dec, &sim.accepted), sim.ops),
                );
            }
            ctx.stats.add("b_bytes_compared", sim.accepted.len() as u64);
            if kinds.len() <= 3 && [1usize, 2, 3, 4, 7].contains(&sim.cfg.chunk) {
                // Short-sequence grid: 5 chunk sizes x (10 + 100 + 1000) op-kind sequences = 5550 cells.
                ctx.stats.grid.insert(format!("chunk={}|{}", sim.cfg.chunk, kinds.join(",")));
            }
            Ok(RunOut { sig, nontrivial: !sim.accepted.is_empty() || sim.gzip })
        }
        "C11" => {
            if sim.aborted && sim.body.is_some() {
                // eos must be false at every sample taken while the error was undelivered.
                let term = sim.log.terminal.unwrap_or(sim.log.steps.len());
                // Samples taken after the abort: we cannot know the exact step index of the abort
                // here, so check the strongest robust form: the terminal event is an error, and
                // the sample right before it did not claim end-of-stream.
                if clean {
                    return violation("C11", "abort-ended-cleanly", format!("{cfg_desc}: after abort the body ended cleanly; ops {:?}", sim.ops));
                }
                if !errored {
                    return violation("C11", "abort-not-reported", format!("{cfg_desc}: after abort no terminal event was seen; ops {:?}", sim.ops));
                }
                for i in sim.abort_at_step.unwrap_or(term)..=term.min(sim.log.steps.len() - 1) {
                    if sim.log.steps[i].0.eos {
                        return violation("C11", "end-of-stream-claimed-while-error-pending", format!("{cfg_desc}: is_end_stream() was true before poll #{} although the abort error had not been delivered yet; ops {:?}", i + 1, sim.ops));
                    }
                }
                let (dec, gst) = sim.decoded();
                if let GzState::Invalid(e) = gst {
                    return violation("C11", "abort-garbled-prefix", format!("{cfg_desc}: {e}"));
                }
                if !sim.accepted_unknown && !sim.accepted.starts_with(&dec) {
                    return violation("C11", "abort-delivered-not-prefix", format!("{cfg_desc}: delivered bytes are not a prefix of the written bytes (equal prefix {}); ops {:?}", common_prefix(&dec, &sim.accepted), sim.ops));
                }
                ctx.stats.bump("c11_aborts_judged");
                return Ok(RunOut { sig, nontrivial: true });
            }
            if sim.body_gone {
                ctx.stats.bump("c11_body_drops_judged");
                return Ok(RunOut { sig, nontrivial: true });
            }
            Ok(RunOut { sig, nontrivial: false })
        }
        "C12" => {
            check_hints("C12", &sim.log, clean, false)?;
            ctx.stats.add("c12_samples_checked", sim.log.steps.len() as u64);
            Ok(RunOut { sig, nontrivial: sim.log.steps.len() > 1 })
        }
        "C20" => {
            let Some(term) = sim.log.terminal else {
                return Ok(RunOut { sig, nontrivial: false });
            };
            let kind = match &sim.log.steps[term].1 {
                Step::End => "clean-end",
                Step::Err(_) => "abort",
                _ => "?",
            };
            for (k, (_, s)) in sim.log.steps.iter().enumerate().skip(term + 1) {
                if let Step::Data(n) = s {
                    if *n == 0 {
                        return violation("C20", "frame-after-termination", format!("{cfg_desc}: poll #{} after the terminal event ({kind}) returned a zero-length frame; ops {:?}", k - term, sim.ops));
                    }
                    if *n > 0 {
                        return violation("C20", "data-after-termination", format!("{cfg_desc}: poll #{} after the terminal event ({kind}) returned {n} bytes; ops {:?}", k - term, sim.ops));
                    }
                }
            }
            let extra = sim.log.steps.len() - term - 1;
            ctx.stats.grid.insert(format!("streaming|{kind}|extra={}", extra.min(4)));
            ctx.stats.add("c20_extra_polls", extra as u64);
            Ok(RunOut { sig: mix(sig, extra as u64), nontrivial: extra > 0 })
        }
        _ => Ok(RunOut { sig, nontrivial: false }),
    }
}

fn focus_static(f: &str) -> &'static str {
    match f {
        "C08" => "C08",
        "C09" => "C09",
        "C11" => "C11",
        "C12" => "C12",
        "C17" => "C17",
        "C20" => "C20",
        _ => "C15",
    }
}

fn common_prefix(a: &[u8], b: &[u8]) -> usize {
    a.iter().zip(b).take_while(|(x, y)| x == y).count()
}

/// C11 "what was queued is released": fill the queue, drop the body, keep writing until the
/// writer is told, and compare this thread's live heap bytes with the level before the fill.
fn run_release(ctx: &mut Ctx) -> Result<RunOut, Violation> {
    let t = &mut ctx.tape;
    let chunk = [1usize, 7, 64, 4096, 1000][t.draw(5) as usize];
    let gzip = t.chance(1, 3);
    let level = 1 + t.draw(9);
    let consume_some = t.draw(4) as usize;
    let fill_total: usize = if chunk < 64 { 4096 + t.draw(8192) as usize } else if gzip { 100_000 + t.draw(60_000) as usize } else { 300_000 + t.draw(200_000) as usize };
    let step = [chunk, 1, 3 * chunk + 1, 1024][t.draw(4) as usize].max(1);
    let seed = t.draw(u32::MAX) as u64;
    let cfg = Cfg { other: 0, version: 0, chunk, level, earlier_levels: Vec::new(), earlier_chunks: Vec::new(), ae: if gzip { 1 } else { 0 }, ae_text: None, ae_second_line: None, ae_present: gzip, method: "GET", as_parts: false, payload: 0, seed };
    let desc = format!("release scenario chunk={chunk} gzip={gzip} level={level} fill={fill_total} write-size={step} polls-before-drop={consume_some}");
    ctx.ev("release", chunk as u64, fill_total as u64);
    // Everything the harness needs is allocated before the measured window.
    let src: Vec<u8> = (0..(step.max(4096)) as u64 * 2).map(|i| ebyte(seed, i)).collect();
    let (resp, w, _) = build(&cfg);
    let mut w = w.expect("GET has a writer");
    let mut body = Some(Box::pin(resp.into_body()));
    let (_f, waker) = new_waker();
    let r = catch(|| {
        // Steady state: one write+flush, consumer drains.
        let _ = w.write(&src[..1]);
        let _ = w.flush();
        {
            let mut cx = Context::from_waker(&waker);
            while let Poll::Ready(Some(Ok(_))) = body.as_mut().unwrap().as_mut().poll_frame(&mut cx) {}
        }
        let l1 = live_bytes();
        // Fill without consuming.
        let mut written = 0usize;
        let mut errs = 0;
        while written < fill_total {
            let n = step.min(src.len());
            match w.write(&src[..n]) {
                Ok(k) => written += k.max(1),
                Err(_) => {
                    errs += 1;
                    break;
                }
            }
        }
        let _ = w.flush();
        let lfull = live_bytes();
        {
            let mut cx = Context::from_waker(&waker);
            for _ in 0..consume_some {
                let _ = body.as_mut().unwrap().as_mut().poll_frame(&mut cx);
            }
        }
        // Client goes away.
        body = None;
        // The writer keeps going until it is told.
        let limit = if gzip { chunk + (1 << 20) } else { 4 * chunk + 16 };
        let mut after = 0usize;
        let mut told = false;
        while after <= limit {
            let n = step.min(src.len()).min(4096);
            match w.write(&src[..n]) {
                Ok(k) => after += k.max(1),
                Err(_) => {
                    told = true;
                    break;
                }
            }
            if after % 8 == 0 && w.flush().is_err() {
                told = true;
                break;
            }
        }
        if !told && w.flush().is_err() {
            told = true;
        }
        let l2 = live_bytes();
        (l1, lfull, l2, told, after, errs)
    });
    let (l1, lfull, l2, told, after, errs) = match r {
        Ok(v) => v,
        Err(p) => return violation("C11", "panic", format!("{desc}: {p}")),
    };
    drop(w);
    ctx.ev("release_result", told as u64, after as u64);
    ctx.note(|| format!("{desc}: live before fill {l1}, after fill {lfull}, after the writer was told {l2}; told={told} accepted_after_drop={after}"));
    if errs > 0 {
        return violation("C11", "write-failed-while-body-alive", desc);
    }
    if !told {
        return violation("C11", "writer-never-told", format!("{desc}: {after} more bytes written and flushed after the body was dropped without a single error"));
    }
    let queued = lfull - l1;
    let still = l2 - l1;
    let allowance = (2 * chunk + 8192) as isize;
    if queued > 4 * allowance && still > allowance {
        return violation("C11", "queue-not-released", format!("{desc}: {queued} bytes were queued; after the writer was told {still} of them are still allocated (allowance {allowance})"));
    }
    ctx.stats.bump("c11_release_scenarios");
    if queued > 4 * allowance {
        ctx.stats.bump("c11_release_with_large_queue");
    }
    Ok(RunOut { sig: mix(mix(0x2E1, chunk as u64), (gzip as u64) << 4 | consume_some as u64), nontrivial: true })
}

#[allow(dead_code)]
fn _unused(_: &mut Tape) {}

/// A producer far ahead of a stalled consumer: megabytes queued (up to just beyond any large
/// threshold found in the source dictionary) before the first poll. Writes to a live body must
/// keep being accepted (C08); an abort afterwards must still surface as an error (C11).
fn run_big_backlog(ctx: &mut Ctx) -> Result<RunOut, Violation> {
    let focus = focus_static(ctx.focus);
    let t = &mut ctx.tape;
    let threshold = crate::dict::pick_in(t.draw(1 << 16), 1 << 20, 96 << 20).unwrap_or(3 << 20) as usize;
    let chunk = [65536usize, 4096, 1 << 20][t.draw(3) as usize];
    let piece = [1usize << 20, 65536, (1 << 20) + 1][t.draw(3) as usize];
    let total = threshold + 2 * chunk + t.draw(4096) as usize;
    let end_with_abort = focus == "C11";
    let seed = t.draw(u32::MAX) as u64;
    let cfg = Cfg { other: 0, version: 0, chunk, level: 0, earlier_levels: Vec::new(), earlier_chunks: Vec::new(), ae: 0, ae_text: None, ae_second_line: None, ae_present: false, method: "GET", as_parts: false, payload: 1, seed };
    let desc = format!("backlog scenario: chunk={chunk}, {total} bytes written in {piece}-byte pieces before the first poll (threshold from the source dictionary: {threshold}), then {}", if end_with_abort { "abort" } else { "drop" });
    ctx.ev("backlog", total as u64, chunk as u64);
    let (resp, w, _) = build(&cfg);
    let mut w = w.expect("GET has a writer");
    let mut body: Pin<Box<SimBody>> = Box::pin(resp.into_body());
    let src: Vec<u8> = (0..piece as u64).map(|i| payload_byte(1, seed, i)).collect();
    let r = catch(|| -> Result<(usize, u64, bool, bool), String> {
        let mut accepted = 0usize;
        let mut sum_in = 0u64;
        while accepted < total {
            let n = piece.min(total - accepted);
            match w.write(&src[..n]) {
                Ok(0) => return Err(format!("write of {n} bytes to a live body accepted nothing after {accepted} bytes")),
                Ok(k) => {
                    for &b in &src[..k] {
                        sum_in = sum_in.wrapping_mul(31).wrapping_add(b as u64);
                    }
                    accepted += k;
                }
                Err(e) => return Err(format!("write to a live body failed after {accepted} bytes had been accepted: {e}")),
            }
        }
        if let Err(e) = w.flush() {
            return Err(format!("flush on a live body failed after {accepted} bytes: {e}"));
        }
        if end_with_abort {
            w.abort(SimError::Injected(11));
        }
        drop(w);
        let (wflag, waker) = new_waker();
        let mut cx = Context::from_waker(&waker);
        let mut yields = 0;
        let mut got = 0usize;
        let mut sum_out = 0u64;
        let mut clean = false;
        let mut failed = false;
        loop {
            match body.as_mut().poll_frame(&mut cx) {
                Poll::Ready(Some(Ok(f))) => {
                    let mut d = f.into_data().map_err(|_| "trailers".to_string())?;
                    while d.has_remaining() {
                        let c = d.chunk();
                        for &b in c {
                            sum_out = sum_out.wrapping_mul(31).wrapping_add(b as u64);
                        }
                        got += c.len();
                        let l = c.len();
                        d.advance(l);
                    }
                }
                Poll::Ready(Some(Err(_))) => {
                    failed = true;
                    break;
                }
                Poll::Ready(None) => {
                    clean = true;
                    break;
                }
                Poll::Pending if crate::a_drain::took_wake(&wflag) && yields < 1_000_000 => yields += 1,
                Poll::Pending => break,
            }
        }
        if !end_with_abort && (got != accepted || sum_in != sum_out) {
            return Err(format!("{accepted} bytes accepted, {got} delivered (content checksum equal: {})", sum_in == sum_out));
        }
        Ok((accepted, got as u64, clean, failed))
    });
    match r {
        Err(p) => violation(focus, "panic", format!("{p}; {desc}")),
        Ok(Err(e)) => violation(focus, if focus == "C11" { "abort-preceded-by-spurious-failure" } else { "backlog" }, format!("{e}; {desc}")),
        Ok(Ok((_acc, _got, clean, failed))) => {
            if end_with_abort && (clean || !failed) {
                return violation("C11", "abort-ended-cleanly", format!("after abort the body ended cleanly={clean}, error seen={failed}; {desc}"));
            }
            if !end_with_abort && !clean {
                return violation("C08", "no-clean-end", desc);
            }
            ctx.stats.bump("b_big_backlog_scenarios");
            Ok(RunOut { sig: mix(mix(0xB16, threshold as u64), chunk as u64 ^ piece as u64), nontrivial: true })
        }
    }
}
