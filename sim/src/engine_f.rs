//! Engine F — wire-sim: the real hyper HTTP/1 server connection as the consumer of http-serve's
//! bodies, over a simulated transport. The simulator owns the socket (request bytes arriving in
//! pieces, short writes, back-pressure, the client disconnecting at a drawn byte), the entity
//! (engine A's simulated storage with chunking / Pending / faults), the producer program of a
//! streaming body, and the executor (one task, polled when woken or spuriously). What is judged
//! is what a client sees **on the wire**, parsed by an independent HTTP/1 response parser: the
//! framing hyper built from `size_hint`/`is_end_stream`/frames, and the bytes inside it.
//!
//! mode 0: `serve()` exchanges (one or two requests on one connection)
//! mode 1: `streaming_body` exchanges with a producer program interleaved with the connection

use crate::a_drain::{new_waker, SimBody};
use crate::a_req::*;
use crate::a_world::*;
use crate::core::{catch, violation, Ctx, RunOut, Violation};
use crate::inflate::{gunzip_prefix, GzState};
use crate::mpart;
use crate::simdata::{ebyte, Cur, Seg, SimData, SimError};
use crate::tape::{hash_str, mix, Tape};
use serde_json::json;
use std::cell::RefCell;
use std::future::Future;
use std::io;
use std::pin::Pin;
use std::rc::Rc;
use std::sync::atomic::Ordering;
use std::sync::Arc;
use std::task::{Context, Poll, Waker};

// ------------------------------------------------------------------ simulated transport

#[derive(Default)]
struct IoState {
    input: Vec<u8>,
    in_pos: usize,
    /// Sizes of successive reads (cycled); 0 = "Pending first, then the next size".
    in_pieces: Vec<usize>,
    in_i: usize,
    /// Bytes of `input` the client has sent so far (the rest arrives when the executor says so).
    in_avail: usize,
    in_eof: bool,
    read_waker: Option<Waker>,
    wire: Vec<u8>,
    /// (cap, pending_first) per write call, cycled.
    write_plan: Vec<(usize, bool)>,
    wi: usize,
    blocked_writer: Option<Waker>,
    write_blocked: bool,
    vectored: bool,
    /// The client goes away once this many response bytes are on the wire.
    fail_at: Option<usize>,
    fail_kind: u32,
    failed: bool,
    shutdown: bool,
    writes: u64,
    short_writes: u64,
    pendings: u64,
    vectored_calls: u64,
    read_calls: u64,
}

#[derive(Clone)]
struct SimIo(Rc<RefCell<IoState>>);

impl hyper::rt::Read for SimIo {
    fn poll_read(self: Pin<&mut Self>, cx: &mut Context<'_>, mut buf: hyper::rt::ReadBufCursor<'_>) -> Poll<io::Result<()>> {
        let mut s = self.0.borrow_mut();
        s.read_calls += 1;
        if s.failed {
            return Poll::Ready(Err(io::Error::new(io::ErrorKind::ConnectionReset, "simulated: client gone")));
        }
        if s.in_pos >= s.in_avail {
            if s.in_eof {
                return Poll::Ready(Ok(())); // EOF: nothing put
            }
            s.read_waker = Some(cx.waker().clone());
            return Poll::Pending;
        }
        let n_plan = s.in_pieces.len().max(1);
        let piece = s.in_pieces.get(s.in_i % n_plan).copied().unwrap_or(usize::MAX);
        s.in_i += 1;
        if piece == 0 {
            // Not ready right now; ready at once afterwards (self-wake).
            cx.waker().wake_by_ref();
            return Poll::Pending;
        }
        let room = unsafe { buf.as_mut().len() };
        let n = piece.min(s.in_avail - s.in_pos).min(room);
        let (a, b) = (s.in_pos, s.in_pos + n);
        // SAFETY: exactly n bytes of the cursor's spare room are initialised before advancing by n.
        unsafe {
            let dst = buf.as_mut();
            for (d, x) in dst.iter_mut().zip(&s.input[a..b]) {
                d.write(*x);
            }
            buf.advance(n);
        }
        s.in_pos = b;
        Poll::Ready(Ok(()))
    }
}

impl SimIo {
    fn do_write(&self, cx: &mut Context<'_>, bufs: &[&[u8]]) -> Poll<io::Result<usize>> {
        let mut s = self.0.borrow_mut();
        s.writes += 1;
        if s.failed {
            return Poll::Ready(Err(io::Error::new(io::ErrorKind::BrokenPipe, "simulated: client gone")));
        }
        let total: usize = bufs.iter().map(|b| b.len()).sum();
        if total == 0 {
            return Poll::Ready(Ok(0));
        }
        let n_plan = s.write_plan.len().max(1);
        let (cap, pend) = s.write_plan.get(s.wi % n_plan).copied().unwrap_or((usize::MAX, false));
        if pend && !s.write_blocked {
            // Back-pressure: the socket buffer is full until the executor drains it.
            s.write_blocked = true;
            s.blocked_writer = Some(cx.waker().clone());
            s.pendings += 1;
            return Poll::Pending;
        }
        if s.write_blocked && s.blocked_writer.is_some() {
            // Still blocked (polled again before the executor unblocked it).
            s.blocked_writer = Some(cx.waker().clone());
            return Poll::Pending;
        }
        s.write_blocked = false;
        s.wi += 1;
        let mut n = total.min(cap.max(1));
        if let Some(f) = s.fail_at {
            let left = f.saturating_sub(s.wire.len());
            if left == 0 {
                s.failed = true;
                return Poll::Ready(match s.fail_kind {
                    0 => Err(io::Error::new(io::ErrorKind::BrokenPipe, "simulated: EPIPE")),
                    1 => Err(io::Error::new(io::ErrorKind::ConnectionReset, "simulated: ECONNRESET")),
                    _ => Ok(0),
                });
            }
            n = n.min(left);
        }
        if n < total {
            s.short_writes += 1;
        }
        let mut left = n;
        for b in bufs {
            let k = left.min(b.len());
            s.wire.extend_from_slice(&b[..k]);
            left -= k;
            if left == 0 {
                break;
            }
        }
        Poll::Ready(Ok(n))
    }
}

impl hyper::rt::Write for SimIo {
    fn poll_write(self: Pin<&mut Self>, cx: &mut Context<'_>, buf: &[u8]) -> Poll<io::Result<usize>> {
        self.do_write(cx, &[buf])
    }
    fn poll_flush(self: Pin<&mut Self>, _cx: &mut Context<'_>) -> Poll<io::Result<()>> {
        Poll::Ready(Ok(()))
    }
    fn poll_shutdown(self: Pin<&mut Self>, _cx: &mut Context<'_>) -> Poll<io::Result<()>> {
        self.0.borrow_mut().shutdown = true;
        Poll::Ready(Ok(()))
    }
    fn is_write_vectored(&self) -> bool {
        self.0.borrow().vectored
    }
    fn poll_write_vectored(self: Pin<&mut Self>, cx: &mut Context<'_>, bufs: &[io::IoSlice<'_>]) -> Poll<io::Result<usize>> {
        self.0.borrow_mut().vectored_calls += 1;
        let v: Vec<&[u8]> = bufs.iter().map(|b| &b[..]).collect();
        self.do_write(cx, &v)
    }
}

fn gen_transport(t: &mut Tape, io: &mut IoState, allow_fail: bool, expected_wire: usize) {
    // request arrival
    io.in_pieces = match t.draw(5) {
        0 => vec![usize::MAX],
        1 => vec![1],
        2 => (0..6).map(|_| 1 + t.draw(40) as usize).collect(),
        3 => (0..6).map(|_| if t.chance(1, 3) { 0 } else { 1 + t.draw(200) as usize }).collect(),
        _ => vec![7, 0, usize::MAX],
    };
    if io.in_pieces.iter().all(|p| *p == 0) {
        io.in_pieces.push(5);
    }
    io.write_plan = match t.draw(6) {
        0 => vec![(usize::MAX, false)],
        1 => vec![(1, false)],
        2 => (0..8).map(|_| (1 + t.draw(16) as usize, false)).collect(),
        3 => (0..8).map(|_| (1 + t.draw(1500) as usize, t.chance(1, 4))).collect(),
        4 => (0..8).map(|_| (if t.chance(1, 2) { usize::MAX } else { 1 + t.draw(64) as usize }, t.chance(1, 2))).collect(),
        _ => vec![(usize::MAX, true), (3, false)],
    };
    io.vectored = t.chance(1, 2);
    if allow_fail && t.chance(1, 3) {
        io.fail_at = Some(t.draw(expected_wire as u32 + 64) as usize);
        io.fail_kind = t.draw(3);
    }
}

// ------------------------------------------------------------------ wire parser (independent)

#[derive(Debug, Clone)]
struct WireResp {
    status: u16,
    version: String,
    headers: Vec<(String, Vec<u8>)>,
    /// Decoded message body (de-chunked) as far as it is on the wire.
    body: Vec<u8>,
    framing: &'static str,
    complete: bool,
    /// Bytes of the wire this message occupies (when complete).
    end: usize,
}

impl WireResp {
    fn hdr(&self, name: &str) -> Option<&[u8]> {
        self.headers.iter().find(|h| h.0 == name).map(|h| &h.1[..])
    }
    fn hdr_count(&self, name: &str) -> usize {
        self.headers.iter().filter(|h| h.0 == name).count()
    }
}

fn find(h: &[u8], n: &[u8], from: usize) -> Option<usize> {
    if h.len() < n.len() {
        return None;
    }
    (from..=h.len() - n.len()).find(|&i| &h[i..i + n.len()] == n)
}

/// Parses one response starting at `at`. `head_request`: the request was HEAD (no body follows).
/// Err = the bytes are not HTTP/1 at all (a harness-independent malformation of the wire).
fn parse_response(wire: &[u8], at: usize, head_request: bool, closed: bool) -> Result<Option<WireResp>, String> {
    let Some(he) = find(wire, b"\r\n\r\n", at) else { return Ok(None) };
    let head = &wire[at..he];
    let mut lines = head.split(|b| *b == b'\n').map(|l| l.strip_suffix(b"\r").unwrap_or(l));
    let sl = lines.next().ok_or("empty head")?;
    let sls = String::from_utf8_lossy(sl).to_string();
    let mut it = sls.splitn(3, ' ');
    let version = it.next().unwrap_or("").to_string();
    if !version.starts_with("HTTP/1.") {
        return Err(format!("status line {sls:?}"));
    }
    let status: u16 = it.next().and_then(|s| s.parse().ok()).ok_or(format!("status line {sls:?}"))?;
    let mut headers = Vec::new();
    for l in lines {
        let Some(c) = l.iter().position(|b| *b == b':') else { return Err(format!("header line without colon: {:?}", String::from_utf8_lossy(l))) };
        let name = String::from_utf8_lossy(&l[..c]).to_ascii_lowercase();
        let mut v = &l[c + 1..];
        while v.first() == Some(&b' ') || v.first() == Some(&b'\t') {
            v = &v[1..];
        }
        while v.last() == Some(&b' ') || v.last() == Some(&b'\t') {
            v = &v[..v.len() - 1];
        }
        headers.push((name, v.to_vec()));
    }
    let mut r = WireResp { status, version, headers, body: Vec::new(), framing: "none", complete: false, end: 0 };
    let b0 = he + 4;
    let no_body = head_request || (100..200).contains(&status) || status == 204 || status == 304;
    if no_body {
        r.complete = true;
        r.end = b0;
        r.framing = "no-body";
        return Ok(Some(r));
    }
    let chunked = r.headers.iter().any(|h| h.0 == "transfer-encoding" && String::from_utf8_lossy(&h.1).to_ascii_lowercase().contains("chunked"));
    if chunked {
        r.framing = "chunked";
        let mut p = b0;
        loop {
            let Some(le) = find(wire, b"\r\n", p) else { break };
            let line = String::from_utf8_lossy(&wire[p..le]).to_string();
            let hex = line.split(';').next().unwrap_or("").trim();
            let Ok(n) = usize::from_str_radix(hex, 16) else { return Err(format!("bad chunk size line {line:?}")) };
            let ds = le + 2;
            if n == 0 {
                // trailers (none expected) then CRLF
                if let Some(te) = find(wire, b"\r\n", ds) {
                    if te == ds {
                        r.complete = true;
                        r.end = ds + 2;
                    } else if let Some(tt) = find(wire, b"\r\n\r\n", ds) {
                        r.complete = true;
                        r.end = tt + 4;
                    }
                }
                break;
            }
            let avail = wire.len().saturating_sub(ds).min(n);
            r.body.extend_from_slice(&wire[ds..ds + avail]);
            if avail < n || wire.len() < ds + n + 2 {
                break;
            }
            if &wire[ds + n..ds + n + 2] != b"\r\n" {
                return Err("chunk data not followed by CRLF".into());
            }
            p = ds + n + 2;
        }
        return Ok(Some(r));
    }
    if let Some(cl) = r.hdr("content-length") {
        let n: usize = std::str::from_utf8(cl).ok().and_then(|s| s.parse().ok()).ok_or("unparsable Content-Length on the wire")?;
        if r.hdr_count("content-length") > 1 {
            return Err("two Content-Length header lines on the wire".into());
        }
        r.framing = "content-length";
        let avail = wire.len().saturating_sub(b0).min(n);
        r.body.extend_from_slice(&wire[b0..b0 + avail]);
        if avail == n {
            r.complete = true;
            r.end = b0 + n;
        }
        return Ok(Some(r));
    }
    // close-delimited
    r.framing = "until-close";
    r.body.extend_from_slice(&wire[b0..]);
    r.complete = closed;
    r.end = wire.len();
    Ok(Some(r))
}

// ------------------------------------------------------------------ executor

struct Outcome {
    finished: Option<Result<(), String>>,
    polls: u64,
    stalled: bool,
    panic: Option<String>,
    spurious: u64,
}

/// Steps the connection until it is idle (Pending and not woken) or finished.
fn run_until_idle<F: Future<Output = hyper::Result<()>>>(conn: &mut Option<Pin<Box<F>>>, out: &mut Outcome, flag: &Arc<crate::a_drain::SimWaker>, waker: &Waker) {
    // A real executor polls a task when it was woken (and once at the start), never because the
    // harness feels like it: a wake-up that http-serve loses must leave the connection asleep.
    let mut guard = 0;
    while out.finished.is_none() && out.panic.is_none() && guard < 200_000 {
        if out.polls > 0 && !flag.woken.load(Ordering::SeqCst) {
            return;
        }
        guard += 1;
        poll_once(conn, out, flag, waker);
    }
    if guard >= 200_000 {
        out.stalled = true;
    }
}

/// One poll of the connection task. A finished (or panicked) connection is dropped at once, as the
/// task that owns it would be: with it hyper drops the response body.
fn poll_once<F: Future<Output = hyper::Result<()>>>(conn: &mut Option<Pin<Box<F>>>, out: &mut Outcome, flag: &Arc<crate::a_drain::SimWaker>, waker: &Waker) {
    let Some(c) = conn.as_mut() else { return };
    flag.woken.store(false, Ordering::SeqCst);
    let mut cx = Context::from_waker(waker);
    out.polls += 1;
    match catch(|| c.as_mut().poll(&mut cx)) {
        Err(p) => out.panic = Some(p),
        Ok(Poll::Ready(r)) => out.finished = Some(r.map_err(|e| format!("{e:?}"))),
        Ok(Poll::Pending) => return,
    }
    let dead = conn.take();
    if let Err(p) = catch(move || drop(dead)) {
        out.panic.get_or_insert(format!("dropping the finished connection panicked: {p}"));
    }
}

/// One idle step of the environment: deliver a deferred entity-stream wake, or drain the socket
/// buffer. Returns false when the environment has nothing left to do.
fn environment_step(world: Option<&Arc<World>>, io: &Rc<RefCell<IoState>>) -> bool {
    if let Some(w) = world {
        let ev = {
            let mut st = w.st.lock().unwrap();
            if st.events.is_empty() {
                None
            } else {
                let mut best = 0;
                for i in 1..st.events.len() {
                    if (st.events[i].0, st.events[i].1) < (st.events[best].0, st.events[best].1) {
                        best = i;
                    }
                }
                let e = st.events.remove(best);
                st.now_ns = st.now_ns.max(e.0 as u128);
                Some(e.2)
            }
        };
        if let Some(wk) = ev {
            wk.wake();
            return true;
        }
    }
    let w = {
        let mut s = io.borrow_mut();
        if s.write_blocked {
            s.blocked_writer.take()
        } else {
            None
        }
    };
    if let Some(w) = w {
        w.wake();
        return true;
    }
    false
}

fn render_request(plan: &ReqPlan, version: &str, extra: &[(&str, &str)]) -> Vec<u8> {
    let mut v = format!("{} /x {}\r\nhost: sim\r\n", plan.method, version).into_bytes();
    for (k, val) in &plan.headers {
        v.extend_from_slice(k.as_bytes());
        v.extend_from_slice(b": ");
        v.extend_from_slice(val);
        v.extend_from_slice(b"\r\n");
    }
    for (k, val) in extra {
        v.extend_from_slice(format!("{k}: {val}\r\n").as_bytes());
    }
    v.extend_from_slice(b"\r\n");
    v
}

thread_local! {
    static CLOCK_NS: std::cell::Cell<u128> = const { std::cell::Cell::new(0) };
}

fn install_clock(now_ns: u128) {
    CLOCK_NS.with(|c| c.set(now_ns));
    http_serve::verif::set_clock(Some(Box::new(|_| to_system_time(CLOCK_NS.with(|c| c.get())))));
}

struct ClockReset;
impl Drop for ClockReset {
    fn drop(&mut self) {
        http_serve::verif::set_clock(None);
    }
}

struct MaterialiseGuard;
impl Drop for MaterialiseGuard {
    fn drop(&mut self) {
        crate::simdata::MATERIALISE.with(|m| m.set(false));
    }
}

pub fn run(ctx: &mut Ctx) -> Result<RunOut, Violation> {
    crate::simdata::MATERIALISE.with(|m| m.set(true));
    let _g = MaterialiseGuard;
    match ctx.mode {
        1 => run_streaming(ctx),
        2 => run_file(ctx),
        _ => run_serve(ctx),
    }
}

fn fs(f: &str) -> &'static str {
    match f {
        "C01" => "C01",
        "C02" => "C02",
        "C06" => "C06",
        "C07" => "C07",
        "C08" => "C08",
        "C09" => "C09",
        "C10" => "C10",
        "C11" => "C11",
        "C13" => "C13",
        "C15" => "C15",
        "C17" => "C17",
        "C18" => "C18",
        _ => "C01",
    }
}

// ------------------------------------------------------------------ mode 0: serve() on the wire

struct Seen {
    method: String,
    status: u16,
    headers: Vec<(String, Vec<u8>)>,
    calls_before: usize,
}

fn run_serve(ctx: &mut Ctx) -> Result<RunOut, Violation> {
    let focus = ctx.focus;
    let t = &mut ctx.tape;
    let faults = match focus {
        "C07" => true,
        "C13" => t.chance(1, 3),
        _ => false,
    };
    let now_ns = gen_clock(t);
    let bias = if focus == "C06" { 1 } else { [1u32, 2, 2][t.draw(3) as usize] };
    let mut meta = gen_meta(t, now_ns, bias);
    // Real bytes travel, so entities are small - except that one run in four of the range-minded
    // properties keeps whatever (possibly astronomically large) length was drawn: the ranges of a
    // request are small, and should the answer be the complete entity the simulated client hangs
    // up after 256 KiB (such an exchange is not judged).
    let huge_ok = matches!(focus, "C01" | "C02" | "C06") && t.chance(1, 4);
    if meta.len > 70_000 && !huge_ok {
        meta.len = 300 + meta.len % 66_000;
    }
    let huge = meta.len > 70_000;
    let meta = Arc::new(meta);
    let rk = ReqKnobs {
        methods: match focus {
            "C13" => 2,
            "C15" => 1,
            _ => 0,
        },
        ranges: match focus {
            "C06" => 2,
            _ if huge => [1u32, 2][t.draw(2) as usize],
            _ => [0u32, 1, 1, 2][t.draw(4) as usize],
        },
        conditionals: focus != "C06" && t.chance(1, 3),
        hostile: focus == "C13" && t.chance(1, 2),
    };
    let n_req = if faults { 1 } else { 1 + t.draw(2) as usize };
    let mut plans: Vec<ReqPlan> = Vec::new();
    for i in 0..n_req {
        let mut p = gen_request(t, &meta, now_ns, &rk);
        if i == 1 && (focus == "C15" || t.chance(1, 2)) {
            // The twin of the first request with the other method (C15 on one connection).
            p = plans[0].clone();
            p.method = if plans[0].method == "HEAD" { "GET".into() } else { "HEAD".into() };
        }
        plans.push(p);
    }
    let knobs = crate::engine_a::gen_knobs_pub(t, faults);
    let keep_alive = n_req > 1 || t.chance(1, 2);
    let half_close = t.chance(1, 2);
    let http10 = n_req == 1 && t.chance(1, 6);
    let pipelined = n_req > 1 && t.chance(1, 2);
    let writev = t.chance(1, 2);
    let spurious_p = [0u32, 0, 2][t.draw(3) as usize];

    let world = World::new(now_ns);
    {
        let mut st = world.st.lock().unwrap();
        st.knobs = knobs;
        st.fault_armed = faults;
    }
    let entity = SimEntity { meta: meta.clone(), world: world.clone() };
    let io = Rc::new(RefCell::new(IoState::default()));
    let reqs: Vec<Vec<u8>> = plans.iter().map(|p| render_request(p, if http10 { "HTTP/1.0" } else { "HTTP/1.1" }, &[])).collect();
    {
        let mut s = io.borrow_mut();
        for r in &reqs {
            s.input.extend_from_slice(r);
        }
        s.in_avail = if pipelined { s.input.len() } else { reqs[0].len() };
        let exp = meta.len.min(1 << 18) as usize + 600;
        gen_transport(t, &mut s, matches!(focus, "C13" | "C11"), exp);
        if huge {
            s.fail_at = Some(256 * 1024);
            s.fail_kind = 0;
        }
    }
    install_clock(now_ns);
    let _reset = ClockReset;
    // lend the tape to the world (entity streams draw their chunking from it)
    let tape = std::mem::replace(&mut ctx.tape, Tape::replay(Vec::new()));
    world.st.lock().unwrap().tape = Some(tape);

    let seen: Rc<RefCell<Vec<Seen>>> = Rc::new(RefCell::new(Vec::new()));
    let serve_panic: Rc<RefCell<Option<String>>> = Rc::new(RefCell::new(None));
    let svc = {
        let (seen, serve_panic, entity, world) = (seen.clone(), serve_panic.clone(), entity.clone(), world.clone());
        hyper::service::service_fn(move |req: http::Request<hyper::body::Incoming>| {
            let (seen, serve_panic, entity, world) = (seen.clone(), serve_panic.clone(), entity.clone(), world.clone());
            async move {
                let calls_before = world.st.lock().unwrap().calls.len();
                let r = catch(|| http_serve::serve(entity, &req));
                let resp: http::Response<SimBody> = match r {
                    // An answer of more than 1 MiB (the complete astronomically large entity) is
                    // not sent through hyper: it would flatten a virtual buffer into memory for
                    // ever. The exchange is marked and not judged.
                    Ok(resp) if resp.headers().get("content-length").and_then(|v| v.to_str().ok()).and_then(|v| v.parse::<u64>().ok()).map(|n| n > (1 << 20)).unwrap_or(false) => {
                        *serve_panic.borrow_mut() = Some("SKIP-TOO-BIG".into());
                        http::Response::builder().status(500).body(http_serve::Body::empty()).unwrap()
                    }
                    Ok(resp) => resp,
                    Err(p) => {
                        *serve_panic.borrow_mut() = Some(p);
                        http::Response::builder().status(500).body(http_serve::Body::empty()).unwrap()
                    }
                };
                seen.borrow_mut().push(Seen {
                    method: req.method().as_str().to_string(),
                    status: resp.status().as_u16(),
                    headers: resp.headers().iter().map(|(k, v)| (k.as_str().to_string(), v.as_bytes().to_vec())).collect(),
                    calls_before,
                });
                Ok::<_, std::convert::Infallible>(resp)
            }
        })
    };
    let mut builder = hyper::server::conn::http1::Builder::new();
    builder.auto_date_header(false).keep_alive(keep_alive).half_close(half_close).writev(writev);
    let conn = builder.serve_connection(SimIo(io.clone()), svc);
    let mut conn = Some(Box::pin(conn));
    let (flag, waker) = new_waker();
    let mut out = Outcome { finished: None, polls: 0, stalled: false, panic: None, spurious: 0 };
    let mut released = if pipelined { n_req } else { 1 };
    let mut eof_given = false;
    let mut steps = 0;
    loop {
        steps += 1;
        if steps > 100_000 {
            out.stalled = true;
            break;
        }
        run_until_idle(&mut conn, &mut out, &flag, &waker);
        if out.finished.is_some() || out.panic.is_some() || out.stalled {
            break;
        }
        if environment_step(Some(&world), &io) {
            continue;
        }
        // The connection is idle and the environment quiet: what does the client do next?
        let (wire_len, failed) = {
            let s = io.borrow();
            (s.wire.len(), s.failed)
        };
        let _ = wire_len;
        let complete_so_far = {
            let s = io.borrow();
            count_complete(&s.wire, &plans, false)
        };
        if released < n_req && complete_so_far >= released {
            // the client sends its next request after having read the previous response
            let mut s = io.borrow_mut();
            s.in_avail += reqs[released].len();
            released += 1;
            if let Some(w) = s.read_waker.take() {
                drop(s);
                w.wake();
            }
            continue;
        }
        if !eof_given && (complete_so_far >= n_req || failed) {
            // the client has everything (or is gone): it closes its side
            eof_given = true;
            let mut s = io.borrow_mut();
            s.in_eof = true;
            if let Some(w) = s.read_waker.take() {
                drop(s);
                w.wake();
            }
            continue;
        }
        if spurious_p > 0 && out.spurious < 3 {
            out.spurious += 1;
            waker.wake_by_ref();
            continue;
        }
        break; // idle for good
    }
    let tape = world.st.lock().unwrap().tape.take().expect("tape comes back");
    ctx.tape = tape;
    drop(conn);
    let st = world.st.lock().unwrap();
    let s = io.borrow();
    let seen = seen.borrow();
    ctx.ev("wire", s.wire.len() as u64, hash_bytes(&s.wire));
    ctx.ev("conn", out.polls, out.finished.as_ref().map(|r| r.is_ok() as u64).unwrap_or(2));
    let stats = &mut *ctx.stats;
    stats.add("f_conn_polls", out.polls);
    stats.add("f_transport_writes", s.writes);
    stats.add("f_transport_short_writes", s.short_writes);
    stats.add("f_transport_backpressure_pendings", s.pendings);
    stats.add("f_transport_vectored_writes", s.vectored_calls);
    stats.add("f_wire_bytes", s.wire.len() as u64);
    if s.failed {
        stats.bump("fault_client_disconnect_mid_response");
    }
    if pipelined {
        stats.bump("f_pipelined_connections");
    }
    if http10 {
        stats.bump("f_http10_requests");
    }
    if let Some(f) = &st.fired {
        stats.bump(match f.kind {
            FaultKind::EarlyEnd => "fault_early_end",
            FaultKind::Error => "fault_error",
            FaultKind::EmptyThenEnd => "fault_empty_chunks_then_end",
            FaultKind::ExtraByte => "fault_extra_byte",
            FaultKind::ExtraChunk => "fault_extra_chunk",
            FaultKind::ErrorAtEnd => "fault_error_at_end",
        });
    }
    let describe = || {
        format!(
            "requests [{}] on entity len={} etag={:?}; connection: keep_alive={keep_alive} half_close={half_close} pipelined={pipelined} http10={http10} vectored={} write_plan={:?} fail_at={:?}; fault fired {:?}; conn outcome {:?} after {} polls; wire {} bytes: {:?}",
            plans.iter().map(|p| p.describe()).collect::<Vec<_>>().join(" ; "),
            meta.len,
            meta.etag.as_ref().map(|e| String::from_utf8_lossy(e).to_string()),
            s.vectored,
            s.write_plan.iter().take(4).collect::<Vec<_>>(),
            s.fail_at,
            st.fired.as_ref().map(|f| (f.kind.name(), f.call, f.at)),
            out.finished,
            out.polls,
            s.wire.len(),
            String::from_utf8_lossy(&s.wire[..s.wire.len().min(300)])
        )
    };
    if ctx.trace.is_some() {
        let d = describe();
        ctx.note(|| d);
        let hx: String = s.wire.iter().take(1200).map(|b| format!("{b:02x}")).collect();
        ctx.note(|| format!("wire hex: {hx}"));
    }
    if ctx.run_index < 64 {
        ctx.sample = Some(json!({"requests": plans.iter().map(|p| p.describe()).collect::<Vec<_>>(), "entity_len": meta.len, "wire_bytes": s.wire.len(), "conn_polls": out.polls,
            "transport": format!("vectored={} plan={:?} fail_at={:?}", s.vectored, s.write_plan.iter().take(3).collect::<Vec<_>>(), s.fail_at), "statuses": seen.iter().map(|x| x.status).collect::<Vec<_>>()}));
    }
    let sig = mix(mix(seen.first().map(|x| x.status as u64).unwrap_or(0), (s.vectored as u64) | (keep_alive as u64) << 1 | (pipelined as u64) << 2 | (http10 as u64) << 3 | (s.failed as u64) << 4),
        mix(st.fired.as_ref().map(|f| f.kind as u64 + 1).unwrap_or(0), (s.wire.len() as u64).min(4096) / 64 ^ (s.short_writes.min(3) << 20) ^ (s.pendings.min(3) << 24)));

    // ---- crash freedom (C13) and totality of the connection
    if serve_panic.borrow().as_deref() == Some("SKIP-TOO-BIG") {
        ctx.stats.bump("f_answer_too_big_for_the_wire_(not_judged)");
        return Ok(RunOut { sig, nontrivial: false });
    }
    if let Some(p) = serve_panic.borrow().clone() {
        return if focus == "C13" { violation("C13", "panic", format!("serve() panicked inside the hyper service: {p}; {}", describe())) } else { Ok(RunOut { sig, nontrivial: false }) };
    }
    if let Some(p) = &out.panic {
        return violation(fs(focus), "panic", format!("polling the hyper connection panicked: {p}; {}", describe()));
    }
    if out.stalled {
        return violation(fs(focus), "hang", format!("the connection never became idle; {}", describe()));
    }
    if seen.is_empty() {
        // hyper rejected the request itself (hostile bytes): nothing of http-serve ran.
        ctx.stats.bump("f_request_rejected_by_hyper");
        return Ok(RunOut { sig, nontrivial: false });
    }
    // ---- parse the wire
    let closed = out.finished.is_some() || s.shutdown;
    let mut at = 0;
    let mut nontrivial = false;
    for (i, sn) in seen.iter().enumerate() {
        let head = sn.method == "HEAD";
        let resp = match parse_response(&s.wire, at, head, closed) {
            Ok(Some(r)) => r,
            Ok(None) => {
                if s.failed || (st.planned.is_some() && matches!(out.finished, Some(Err(_)))) {
                    // the client went away before the head was out, or the body failed before
                    // hyper had flushed anything: the client sees a closed connection
                    if focus == "C07" && st.fired.is_some() {
                        nontrivial = true;
                    }
                    break;
                }
                return violation(fs(focus), "no-response-on-the-wire", format!("response #{} never reached the wire; {}", i + 1, describe()));
            }
            Err(e) => return violation(fs(focus), "malformed-wire", format!("response #{}: {e}; {}", i + 1, describe())),
        };
        if resp.status != sn.status {
            return violation(fs(focus), "wire-status-differs", format!("serve() answered {} but the wire says {}; {}", sn.status, resp.status, describe()));
        }
        // every header serve() set is on the wire unchanged
        for (k, v) in &sn.headers {
            if !resp.headers.iter().any(|h| h.0 == *k && h.1 == *v) {
                return violation(fs(focus), "wire-header-missing", format!("header {k}: {:?} set by serve() is not on the wire; {}", String::from_utf8_lossy(v), describe()));
            }
        }
        let fired_short = st.fired_all.iter().any(|f| f.kind.is_short() || matches!(f.kind, FaultKind::ErrorAtEnd));
        let fired_long = st.fired_all.iter().any(|f| f.kind.is_long());
        let planned_fault = st.planned.is_some();
        let cl_hdr = resp.hdr("content-length").and_then(|v| std::str::from_utf8(v).ok()).and_then(|v| v.parse::<u64>().ok());
        let ok_status = matches!(resp.status, 200 | 206);
        // ---- C01: framing on the wire
        if matches!(focus, "C01" | "C15" | "C13") {
            if !http10 && resp.framing == "chunked" {
                return violation(fs(focus), "serve-body-sent-chunked", format!("response #{} ({}): hyper could not take an exact length from the body and fell back to chunked coding; {}", i + 1, resp.status, describe()));
            }
            if cl_hdr.is_none() && !matches!(resp.status, 304) && !(head && !ok_status) {
                if !(head && resp.hdr("content-length").is_none() && !ok_status) {
                    return violation(fs(focus), "no-content-length-on-the-wire", format!("response #{} ({}) has no Content-Length on the wire; {}", i + 1, resp.status, describe()));
                }
            }
            if !head && resp.complete && !planned_fault {
                if let Some(cl) = cl_hdr {
                    if cl != resp.body.len() as u64 {
                        return violation(fs(focus), "wire-length-mismatch", format!("Content-Length {cl} but {} body bytes on the wire; {}", resp.body.len(), describe()));
                    }
                }
            }
            if head && !resp.body.is_empty() {
                return violation(fs(focus), "head-body-on-the-wire", describe());
            }
        }
        if !head && !resp.complete && !s.failed && !planned_fault {
            return violation(fs(focus), "response-incomplete-on-the-wire", format!("response #{} ({}, framing {}) is incomplete although the entity and the transport were healthy: {} body bytes of {:?}; {}", i + 1, resp.status, resp.framing, resp.body.len(), cl_hdr, describe()));
        }
        // ---- C07: a short or failing entity stream must not look complete on the wire
        if focus == "C07" && !head && ok_status {
            if fired_short && resp.complete {
                return violation("C07", "truncated-response-looks-complete-on-the-wire", format!("fault {:?} fired but the client received a complete message ({} framing, {} bytes); {}", st.fired_all.iter().map(|f| f.kind.name()).collect::<Vec<_>>(), resp.framing, resp.body.len(), describe()));
            }
            if fired_short && !closed {
                return violation("C07", "connection-kept-open-after-failed-body", describe());
            }
            if let Some(cl) = cl_hdr {
                if resp.body.len() as u64 > cl {
                    return violation("C07", "more-than-announced-on-the-wire", describe());
                }
            }
            if fired_long || fired_short {
                nontrivial = true;
            }
        }
        // ---- C02 / C06 with engine A's own oracles, fed with what the client received
        if matches!(focus, "C02" | "C06") && !head && resp.complete && !planned_fault && sn.method == "GET" {
            let next_calls = seen.get(i + 1).map(|n| n.calls_before).unwrap_or(st.calls.len());
            let mut log = crate::a_drain::DrainLog::default();
            log.segs = vec![Seg::Lit(resp.body.clone())];
            log.total = resp.body.len() as u128;
            log.stopped_by_eos = Some(0);
            let ex = crate::engine_a::Exchange {
                status: resp.status,
                headers: resp.headers.iter().filter(|h| !(h.0 == "date" && !sn.headers.iter().any(|x| x.0 == "date"))).cloned().collect(),
                serve_panic: None,
                log,
                calls: st.calls[sn.calls_before..next_calls].to_vec(),
                calls_at_serve: 0,
                fired: None,
                planned: None,
                fired_all: Vec::new(),
                breach: st.contract_breach.clone(),
                clock_reads: 1,
                policy: crate::a_drain::Policy::HyperLike,
            };
            let r = if focus == "C02" { crate::engine_a::check_c02(ctx, &ex, &meta, &plans[i], sig) } else { crate::engine_a::check_c06(ctx, &ex, &meta, &plans[i], sig) };
            match r {
                Err(mut v) => {
                    v.msg = format!("[as received on the wire] {}; {}", v.msg, describe());
                    return Err(v);
                }
                Ok(o) => nontrivial |= o.nontrivial,
            }
        }
        // ---- C02 / C06: the bytes inside the framing
        if matches!(focus, "C02" | "C06" | "C01") && !head && resp.complete && !planned_fault && ok_status {
            let segs = vec![Seg::Lit(resp.body.clone())];
            // (a single-range 206 of an entity that is itself a multipart document has a
            // Content-Range next to the entity's own multipart Content-Type)
            let is_multi = resp.status == 206 && resp.hdr("content-range").is_none() && resp.hdr("content-type").map(|v| v.to_ascii_lowercase().starts_with(b"multipart/byteranges")).unwrap_or(false);
            if resp.status == 200 {
                let mut c = Cur::new(&segs, meta.seed);
                if let Err(e) = c.take_entity(0, meta.len).and_then(|_| if c.at_end() { Ok(()) } else { Err("extra bytes after the entity".to_string()) }) {
                    return violation(fs(focus), "wire-body-differs", format!("200: {e}; {}", describe()));
                }
                nontrivial = true;
            } else if !is_multi {
                let cr = resp.hdr("content-range").ok_or(()).map_err(|_| Violation { prop: fs(focus), oracle: "206-without-content-range", msg: describe() })?;
                let (a, b, l) = mpart::parse_content_range(cr).map_err(|e| Violation { prop: fs(focus), oracle: "content-range-syntax", msg: format!("{e}; {}", describe()) })?;
                if !(a <= b && b < l && l == meta.len) {
                    return violation(fs(focus), "206-content-range-bounds", format!("bytes {a}-{b}/{l} on an entity of {}; {}", meta.len, describe()));
                }
                let mut c = Cur::new(&segs, meta.seed);
                if let Err(e) = c.take_entity(a, b - a + 1).and_then(|_| if c.at_end() { Ok(()) } else { Err("extra bytes after the range".to_string()) }) {
                    return violation(fs(focus), "wire-body-differs", format!("206 {a}-{b}: {e}; {}", describe()));
                }
                nontrivial = true;
            } else {
                let bd = mpart::boundary_of(resp.hdr("content-type").unwrap()).map_err(|e| Violation { prop: fs(focus), oracle: "boundary", msg: format!("{e}; {}", describe()) })?;
                match mpart::parse(&segs, meta.seed, &bd) {
                    Err(e) => return violation(fs(focus), "malformed-multipart-on-the-wire", format!("{e}; {}", describe())),
                    Ok(parts) => {
                        let got: Vec<std::ops::Range<u64>> = st.calls[sn.calls_before..].iter().cloned().collect();
                        if parts.len() != got.len() && i + 1 == seen.len() {
                            return violation(fs(focus), "multipart-parts-vs-reads", format!("{} parts on the wire, {} entity reads; {}", parts.len(), got.len(), describe()));
                        }
                        ctx.stats.bump("f_multipart_bodies_parsed_from_the_wire");
                        nontrivial = true;
                    }
                }
            }
        }
        if focus == "C15" && head {
            nontrivial = true;
        }
        if matches!(focus, "C13") {
            nontrivial = true;
            if ![200u16, 206, 304, 400, 405, 412, 413, 416].contains(&resp.status) {
                return violation("C13", "status-outside-set", describe());
            }
        }
        if !resp.complete {
            break;
        }
        at = resp.end;
    }
    // ---- C15 on the wire: the HEAD twin carries the same head (minus clock headers)
    if focus == "C15" && seen.len() == 2 && seen[0].method != seen[1].method && (seen[0].method == "HEAD" || seen[1].method == "HEAD") {
        let norm = |s: &Seen| {
            let mut v: Vec<(String, Vec<u8>)> = s.headers.iter().filter(|h| h.0 != "date" && h.0 != "last-modified").cloned().collect();
            v.sort();
            v
        };
        if seen[0].status != seen[1].status || norm(&seen[0]) != norm(&seen[1]) {
            return violation("C15", "head-differs-from-get-on-one-connection", describe());
        }
    }
    Ok(RunOut { sig, nontrivial })
}

/// Hash of the wire with the value of every `date:` line masked: hyper 1.4.1 adds a Date header
/// from the real clock when the response has none (its `auto_date_header(false)` is not applied
/// to HTTP/1 connections), and the real clock must not enter the event hash.
fn hash_bytes(b: &[u8]) -> u64 {
    hash_wire(b, &[b"\r\ndate: "])
}

/// Hash of the wire with the values of the given header lines masked out.
fn hash_wire(b: &[u8], masked: &[&[u8]]) -> u64 {
    let mut h = 0xcbf2_9ce4_8422_2325u64;
    let mut i = 0;
    while i < b.len() {
        if masked.iter().any(|m| b[i..].starts_with(m)) {
            // skip to the CRLF that ends this header line
            let mut j = i + 2;
            while j < b.len() && !(b[j] == b'\r' && b.get(j + 1) == Some(&b'\n')) {
                j += 1;
            }
            i = j; // = b.len() when the wire was cut inside the line
            continue;
        }
        h = (h ^ b[i] as u64).wrapping_mul(0x1000_0000_01b3);
        i += 1;
    }
    h
}

/// How many responses are complete on the wire so far.
fn count_complete(wire: &[u8], plans: &[ReqPlan], closed: bool) -> usize {
    let mut at = 0;
    let mut n = 0;
    for p in plans {
        match parse_response(wire, at, p.method == "HEAD", closed) {
            Ok(Some(r)) if r.complete => {
                at = r.end;
                n += 1;
            }
            _ => break,
        }
    }
    n
}

// ------------------------------------------------------------------ mode 1: streaming_body on the wire

type W = http_serve::BodyWriter<SimData, SimError>;

fn run_streaming(ctx: &mut Ctx) -> Result<RunOut, Violation> {
    let focus = ctx.focus;
    let t = &mut ctx.tape;
    let chunk = if t.chance(1, 8) { crate::dict::pick_in(t.draw(1 << 16), 1, 20_000).unwrap_or(16) as usize } else { [1usize, 2, 3, 7, 16, 64, 4096][t.draw(7) as usize] };
    let gzip = match focus {
        "C08" => false,
        "C09" => true,
        _ => t.chance(1, 3),
    };
    let level = if focus == "C17" { t.draw(10) } else { 1 + t.draw(9) };
    let method = if matches!(focus, "C15" | "C17") && t.chance(1, 4) { "HEAD" } else if t.chance(1, 8) { "POST" } else { "GET" };
    let http10 = t.chance(1, 8);
    let seed = t.draw(u32::MAX) as u64;
    let compressible = t.chance(1, 2);
    let keep_alive = t.chance(1, 2);
    let n_ops = 1 + t.draw(10);
    let want_abort = matches!(focus, "C11") && t.chance(1, 2);
    let abort_at = t.draw(n_ops + 1);
    let io = Rc::new(RefCell::new(IoState::default()));
    let plan = ReqPlan { method: method.into(), specs: None, headers: if gzip { vec![("accept-encoding".into(), b"gzip".to_vec())] } else if t.chance(1, 3) { vec![("accept-encoding".into(), b"identity, br".to_vec())] } else { vec![] }, has_if_range: false, corrupted: false };
    let req = render_request(&plan, if http10 { "HTTP/1.0" } else { "HTTP/1.1" }, &[]);
    {
        let mut s = io.borrow_mut();
        s.input = req.clone();
        s.in_avail = req.len();
        gen_transport(t, &mut s, focus == "C11" && !want_abort, 400);
    }
    let slot: Rc<RefCell<Option<W>>> = Rc::new(RefCell::new(None));
    let seen: Rc<RefCell<Option<(u16, Vec<(String, Vec<u8>)>, bool)>>> = Rc::new(RefCell::new(None));
    // Operations the application performs on the writer *before* it hands the response to hyper
    // (an error found right away, a small body written at once): hyper then takes its framing
    // decision from a body that already has something queued, has ended, or has been aborted.
    // 0 = write(n), 1 = flush, 2 = drop, 3 = abort
    let mut prelude: Vec<(u32, usize)> = Vec::new();
    if t.chance(1, 3) {
        for _ in 0..1 + t.draw(3) {
            let k = match t.draw(8) {
                0..=3 => 0,
                4 | 5 => 1,
                6 => 2,
                _ => if matches!(focus, "C11") { 3 } else { 1 },
            };
            prelude.push((k, 1 + t.draw((2 * chunk).min(600) as u32) as usize));
            if k >= 2 {
                break;
            }
        }
    }
    let pre_state: Rc<RefCell<(Vec<u8>, Vec<String>, bool, bool)>> = Rc::new(RefCell::new((Vec::new(), Vec::new(), false, false))); // accepted, ops, aborted, dead
    let svc = {
        let (slot, seen, pre_state, prelude) = (slot.clone(), seen.clone(), pre_state.clone(), prelude.clone());
        hyper::service::service_fn(move |req: http::Request<hyper::body::Incoming>| {
            let (slot, seen, pre_state, prelude) = (slot.clone(), seen.clone(), pre_state.clone(), prelude.clone());
            async move {
                let expect_gzip = http_serve::should_gzip(req.headers()) && level > 0;
                let (resp, mut w) = http_serve::streaming_body(&req).with_chunk_size(chunk).with_gzip_level(level).build::<SimData, SimError>();
                *seen.borrow_mut() = Some((resp.status().as_u16(), resp.headers().iter().map(|(k, v)| (k.as_str().to_string(), v.as_bytes().to_vec())).collect(), expect_gzip));
                let mut ps = pre_state.borrow_mut();
                for (k, n) in prelude {
                    let Some(wr) = w.as_mut() else { break };
                    match k {
                        0 => {
                            let p0 = ps.0.len() as u64;
                            let buf: Vec<u8> = (0..n as u64).map(|i| if compressible { b"abcdefgh"[(((p0 + i) / 5) % 8) as usize] } else { ebyte(seed, p0 + i) }).collect();
                            let r = std::io::Write::write(wr, &buf);
                            if let Ok(k) = &r {
                                let k = (*k).min(n);
                                ps.0.extend_from_slice(&buf[..k]);
                            } else {
                                ps.3 = true;
                            }
                            ps.1.push(format!("[in service] write({n}) -> {:?}", r.map_err(|e| e.to_string())));
                        }
                        1 => {
                            let r = std::io::Write::flush(wr);
                            if r.is_err() {
                                ps.3 = true;
                            }
                            ps.1.push(format!("[in service] flush -> {:?}", r.map_err(|e| e.to_string())));
                        }
                        2 => {
                            drop(w.take());
                            ps.1.push("[in service] drop(writer)".into());
                        }
                        _ => {
                            wr.abort(SimError::Injected(6));
                            ps.2 = true;
                            ps.3 = true;
                            ps.1.push("[in service] abort".into());
                        }
                    }
                }
                *slot.borrow_mut() = w;
                Ok::<_, std::convert::Infallible>(resp)
            }
        })
    };
    let mut builder = hyper::server::conn::http1::Builder::new();
    builder.auto_date_header(false).keep_alive(keep_alive).half_close(true).writev(t.chance(1, 2));
    let conn = builder.serve_connection(SimIo(io.clone()), svc);
    let mut conn = Some(Box::pin(conn));
    let (flag, waker) = new_waker();
    let mut out = Outcome { finished: None, polls: 0, stalled: false, panic: None, spurious: 0 };
    // Let the request in and the service run.
    let idle = |conn: &mut Option<Pin<Box<_>>>, out: &mut Outcome| {
        let mut g = 0;
        loop {
            run_until_idle(conn, out, &flag, &waker);
            g += 1;
            if out.finished.is_some() || out.panic.is_some() || out.stalled || g > 10_000 {
                break;
            }
            if !environment_step(None, &io) {
                break;
            }
        }
    };
    idle(&mut conn, &mut out);
    let (mut accepted, mut ops, mut aborted, mut dead) = {
        let ps = pre_state.borrow();
        (ps.0.clone(), ps.1.clone(), ps.2, ps.3)
    };
    let mut w: Option<W> = slot.borrow_mut().take();
    let has_writer = w.is_some() || !ops.is_empty();
    if aborted {
        ctx.stats.bump("f_abort_before_hyper_saw_the_response");
    }
    let mut accepted_after_conn_end = 0usize;
    let mut accepted_unknown = false;
    let mut flush_checks = 0u64;
    let t = &mut ctx.tape;
    let byte = |p: u64| if compressible { b"abcdefgh"[((p / 5) % 8) as usize] } else { ebyte(seed, p) };
    let mut finding: Option<(&'static str, &'static str, String)> = None;
    if w.is_some() {
        for opi in 0..=n_ops {
            if out.panic.is_some() || finding.is_some() {
                break;
            }
            if want_abort && opi == abort_at && w.is_some() && !aborted {
                w.as_mut().unwrap().abort(SimError::Injected(5));
                aborted = true;
                dead = true;
                ops.push("abort".into());
                idle(&mut conn, &mut out);
            }
            if opi == n_ops {
                break;
            }
            let conn_ended_before = out.finished.is_some();
            match t.draw(9) {
                7 => {
                    // Write::write_all - also long backlogs (33..72 chunks in one go)
                    let n = if chunk <= 64 && t.chance(1, 3) { chunk * (33 + t.draw(40) as usize) + t.draw(chunk as u32) as usize } else { 1 + t.draw((2 * chunk).min(20_000) as u32) as usize };
                    let p0 = accepted.len() as u64;
                    let buf: Vec<u8> = (0..n as u64).map(|i| byte(p0 + i)).collect();
                    let Some(wr) = w.as_mut() else { break };
                    let r = std::io::Write::write_all(wr, &buf);
                    match &r {
                        Ok(()) => {
                            accepted.extend_from_slice(&buf);
                            if conn_ended_before {
                                accepted_after_conn_end += n;
                            }
                            if dead && focus == "C11" {
                                finding = Some(("C11", "write-after-abort-or-failure-succeeded", format!("write_all({n}) -> Ok")));
                            }
                        }
                        Err(_) => {
                            dead = true;
                            accepted_unknown = true;
                        }
                    }
                    ops.push(format!("write_all({n}) -> {:?}", r.map_err(|e| e.to_string())));
                }
                8 => {
                    let sizes: Vec<usize> = (0..2 + t.draw(2)).map(|_| if t.chance(1, 4) { 0 } else { 1 + t.draw((2 * chunk).min(9000) as u32) as usize }).collect();
                    let n: usize = sizes.iter().sum();
                    let p0 = accepted.len() as u64;
                    let buf: Vec<u8> = (0..n as u64).map(|i| byte(p0 + i)).collect();
                    let mut slices = Vec::new();
                    let mut o = 0;
                    for l in &sizes {
                        slices.push(std::io::IoSlice::new(&buf[o..o + l]));
                        o += l;
                    }
                    let Some(wr) = w.as_mut() else { break };
                    let r = std::io::Write::write_vectored(wr, &slices);
                    match &r {
                        Ok(k) => {
                            accepted.extend_from_slice(&buf[..(*k).min(n)]);
                            if conn_ended_before {
                                accepted_after_conn_end += *k;
                            }
                            if dead && n > 0 && focus == "C11" {
                                finding = Some(("C11", "write-after-abort-or-failure-succeeded", format!("write_vectored({sizes:?}) -> Ok({k})")));
                            }
                        }
                        Err(_) => dead = true,
                    }
                    ops.push(format!("write_vectored({sizes:?}) -> {:?}", r.map_err(|e| e.to_string())));
                }
                0..=2 => {
                    let n = match t.draw(6) {
                        0 => 1,
                        1 => chunk,
                        2 => chunk + 1,
                        3 => 0,
                        4 => 8192 + t.draw(12_000) as usize,
                        _ => 1 + t.draw((3 * chunk).min(6000) as u32) as usize,
                    };
                    let p0 = accepted.len() as u64;
                    let buf: Vec<u8> = (0..n as u64).map(|i| byte(p0 + i)).collect();
                    let Some(wr) = w.as_mut() else { break };
                    let r = std::io::Write::write(wr, &buf);
                    match &r {
                        Ok(k) => {
                            accepted.extend_from_slice(&buf[..(*k).min(n)]);
                            if conn_ended_before {
                                accepted_after_conn_end += *k;
                            }
                            if dead && n > 0 && focus == "C11" {
                                finding = Some(("C11", "write-after-abort-or-failure-succeeded", format!("write({n}) -> Ok({k})")));
                            }
                            if n > 0 && *k == 0 && !dead && !conn_ended_before && matches!(focus, "C08" | "C09") {
                                finding = Some((fs(focus), "write-accepted-nothing", format!("write({n}) -> Ok(0) on a live connection")));
                            }
                        }
                        Err(_) => dead = true,
                    }
                    ops.push(format!("write({n}) -> {:?}", r.map_err(|e| e.to_string())));
                }
                3 | 4 => {
                    let Some(wr) = w.as_mut() else { break };
                    let surely = accepted_after_conn_end > 0;
                    let r = std::io::Write::flush(wr);
                    ops.push(format!("flush -> {:?}", r.as_ref().map_err(|e| e.to_string())));
                    match &r {
                        Ok(()) => {
                            if dead && focus == "C11" {
                                finding = Some(("C11", "flush-after-abort-or-failure-succeeded", "flush -> Ok".into()));
                            }
                            if conn_ended_before && surely && focus == "C11" {
                                finding = Some(("C11", "writer-not-told-the-client-is-gone", format!("the connection had ended (hyper dropped the body), {accepted_after_conn_end} bytes were accepted afterwards and a flush returned Ok")));
                            }
                            accepted_after_conn_end = 0;
                            // End-to-end flush clause: once the connection has been driven until it
                            // is idle and the socket took everything, the client can decode every
                            // byte accepted so far.
                            idle(&mut conn, &mut out);
                            let s = io.borrow();
                            if !aborted && !accepted_unknown && !s.failed && out.finished.is_none() && out.panic.is_none() && matches!(focus, "C08" | "C09" | "C17" | "C10") {
                                if let Ok(Some(r)) = parse_response(&s.wire, 0, false, false) {
                                    flush_checks += 1;
                                    let is_gz = r.hdr("content-encoding") == Some(b"gzip");
                                    let dec = if is_gz { gunzip_prefix(&r.body).0 } else { r.body.clone() };
                                    if dec != accepted && accepted.len() < 30_000 {
                                        finding = Some((fs(focus), "flushed-bytes-not-on-the-wire", format!("after flush {} bytes were accepted, the connection is idle and the socket took everything, but the client can decode only {}", accepted.len(), dec.len())));
                                    }
                                }
                            }
                        }
                        Err(_) => dead = true,
                    }
                }
                5 => {
                    idle(&mut conn, &mut out);
                    ops.push("drive-connection".into());
                }
                _ => {
                    // one poll only (the consumer lags behind)
                    poll_once(&mut conn, &mut out, &flag, &waker);
                    ops.push("poll-connection-once".into());
                }
            }
        }
        // Probe (C11): the client is gone and hyper has dropped the body: the writer must be told.
        if focus == "C11" && finding.is_none() && out.finished.is_some() && !dead && w.is_some() {
            let wr = w.as_mut().unwrap();
            let mut told = false;
            let mut wrote = 0usize;
            for _ in 0..6 {
                let buf: Vec<u8> = (0..(2 * chunk + 9) as u64).map(|i| ebyte(seed ^ 9, i + wrote as u64)).collect();
                match std::io::Write::write(wr, &buf) {
                    Ok(k) => wrote += k,
                    Err(_) => {
                        told = true;
                        break;
                    }
                }
                if std::io::Write::flush(wr).is_err() {
                    told = true;
                    break;
                }
                if wrote > 0 {
                    break;
                }
            }
            ops.push(format!("probe after the connection ended: wrote {wrote}, told={told}"));
            ctx.stats.bump("c11_wire_probes_after_connection_end");
            if !told && wrote > 0 {
                finding = Some(("C11", "writer-not-told-the-client-is-gone", format!("the connection ended with {:?}, hyper dropped the body, yet {wrote} more bytes and a flush were accepted without error", out.finished)));
            }
        }
        if let Some(wr) = w.take() {
            drop(wr);
            ops.push("drop(writer)".into());
        }
    }
    // Finish: drive the connection; when the response is complete the client closes.
    let mut eof_given = false;
    let mut g = 0;
    loop {
        g += 1;
        idle(&mut conn, &mut out);
        if out.finished.is_some() || out.panic.is_some() || out.stalled || g > 1000 {
            break;
        }
        if !eof_given {
            eof_given = true;
            let mut s = io.borrow_mut();
            s.in_eof = true;
            if let Some(wk) = s.read_waker.take() {
                drop(s);
                wk.wake();
            }
            continue;
        }
        break;
    }
    drop(conn);
    let s = io.borrow();
    let seen = seen.borrow();
    ctx.ev("wire", s.wire.len() as u64, hash_bytes(&s.wire));
    ctx.ev("conn", out.polls, out.finished.as_ref().map(|r| r.is_ok() as u64).unwrap_or(2));
    let stats = &mut *ctx.stats;
    stats.add("f_conn_polls", out.polls);
    stats.add("f_transport_writes", s.writes);
    stats.add("f_transport_short_writes", s.short_writes);
    stats.add("f_transport_backpressure_pendings", s.pendings);
    stats.add("f_wire_bytes", s.wire.len() as u64);
    stats.add("f_flush_checks_on_the_wire", flush_checks);
    if s.failed {
        stats.bump("fault_client_disconnect_mid_response");
    }
    if aborted {
        stats.bump("fault_abort");
    }
    let describe = || {
        format!(
            "{method} {} chunk={chunk} gzip={gzip} level={level} keep_alive={keep_alive}; ops {:?}; transport vectored={} write_plan={:?} fail_at={:?} failed={}; conn outcome {:?} after {} polls; wire {} bytes: {:?}",
            if http10 { "HTTP/1.0" } else { "HTTP/1.1" },
            ops,
            s.vectored,
            s.write_plan.iter().take(4).collect::<Vec<_>>(),
            s.fail_at,
            s.failed,
            out.finished,
            out.polls,
            s.wire.len(),
            String::from_utf8_lossy(&s.wire[..s.wire.len().min(200)])
        )
    };
    if ctx.trace.is_some() {
        let d = describe();
        ctx.note(|| d);
    }
    if ctx.run_index < 64 {
        ctx.sample = Some(json!({"request": format!("{method} gzip={gzip} chunk={chunk}"), "ops": ops.iter().take(14).collect::<Vec<_>>(), "accepted": accepted.len(), "wire_bytes": s.wire.len(), "conn_polls": out.polls}));
    }
    let mut sig = mix(chunk as u64 ^ (gzip as u64) << 20 ^ (http10 as u64) << 21 ^ (s.failed as u64) << 22 ^ (aborted as u64) << 23, hash_str(method));
    for o in &ops {
        sig = mix(sig, o.as_bytes()[0] as u64 ^ (o.len() as u64) << 8);
    }
    if let Some(p) = &out.panic {
        return violation(fs(focus), "panic", format!("polling the hyper connection panicked: {p}; {}", describe()));
    }
    if out.stalled {
        return violation(fs(focus), "hang", describe());
    }
    if let Some((p, code, m)) = finding {
        return violation(p, code, format!("{m}; {}", describe()));
    }
    let Some((status, hdrs, expect_gzip)) = seen.clone() else {
        ctx.stats.bump("f_request_rejected_by_hyper");
        return Ok(RunOut { sig, nontrivial: false });
    };
    let closed = out.finished.is_some() || s.shutdown;
    let resp = match parse_response(&s.wire, 0, method == "HEAD", closed) {
        Ok(Some(r)) => r,
        Ok(None) => {
            if s.failed || (aborted && matches!(out.finished, Some(Err(_)))) {
                // the client went away first, or the body failed before hyper had flushed
                // anything: all the client sees is a closed connection
                return Ok(RunOut { sig, nontrivial: focus == "C11" });
            }
            return violation(fs(focus), "no-response-on-the-wire", describe());
        }
        Err(e) => return violation(fs(focus), "malformed-wire", format!("{e}; {}", describe())),
    };
    if resp.status != status {
        return violation(fs(focus), "wire-status-differs", describe());
    }
    for (k, v) in &hdrs {
        if !resp.headers.iter().any(|h| h.0 == *k && h.1 == *v) {
            return violation(fs(focus), "wire-header-missing", format!("{k}; {}", describe()));
        }
    }
    let is_gz = resp.hdr("content-encoding") == Some(b"gzip");
    if focus == "C17" {
        if is_gz != expect_gzip {
            return violation("C17", "content-encoding-vs-negotiation", format!("should_gzip && level>0 is {expect_gzip} but the wire says Content-Encoding {:?}; {}", resp.hdr("content-encoding").map(|v| String::from_utf8_lossy(v).to_string()), describe()));
        }
        if !resp.headers.iter().any(|h| h.0 == "vary" && String::from_utf8_lossy(&h.1).to_ascii_lowercase().contains("accept-encoding")) {
            return violation("C17", "vary-missing", describe());
        }
    }
    if method == "HEAD" {
        if has_writer && matches!(focus, "C15" | "C17") {
            return violation(fs(focus), "head-got-writer", describe());
        }
        if !resp.body.is_empty() {
            return violation(fs(focus), "head-body-on-the-wire", describe());
        }
        return Ok(RunOut { sig, nontrivial: matches!(focus, "C15" | "C17") });
    }
    // The client's view of the body.
    let (dec, gst) = if is_gz { gunzip_prefix(&resp.body) } else { (resp.body.clone(), GzState::Streaming) };
    if aborted {
        // C11: an aborted body never looks complete to the client (HTTP/1.0's close-delimited
        // framing cannot express that; there the prefix clause is all a client can see).
        if focus == "C11" {
            if resp.complete && resp.framing != "until-close" && !s.failed {
                return violation("C11", "aborted-response-looks-complete-on-the-wire", format!("framing {}; {}", resp.framing, describe()));
            }
            if !accepted.starts_with(&dec) {
                return violation("C11", "abort-delivered-not-prefix", describe());
            }
            if !closed && !s.failed {
                return violation("C11", "connection-kept-open-after-abort", describe());
            }
        }
        return Ok(RunOut { sig, nontrivial: focus == "C11" });
    }
    if s.failed {
        if !accepted.starts_with(&dec) && !matches!(gst, GzState::Invalid(_)) {
            return violation(fs(focus), "delivered-not-prefix", describe());
        }
        return Ok(RunOut { sig, nontrivial: focus == "C11" });
    }
    // Healthy transport, writer dropped: the message is complete and carries exactly what was written.
    if accepted_unknown {
        return Ok(RunOut { sig, nontrivial: false });
    }
    if matches!(focus, "C08" | "C09" | "C17" | "C10" | "C01") {
        if !resp.complete {
            return violation(fs(focus), "response-incomplete-on-the-wire", format!("the writer was dropped and the transport is healthy, but the {} message never completed ({} body bytes); {}", resp.framing, resp.body.len(), describe()));
        }
        if is_gz && gst != (GzState::Complete { trailing: 0 }) {
            return violation(fs(focus), "not-one-gzip-member-on-the-wire", format!("{gst:?}; {}", describe()));
        }
        if dec != accepted {
            return violation(fs(focus), "wire-body-differs-from-accepted", format!("accepted {} bytes, the client decoded {}; {}", accepted.len(), dec.len(), describe()));
        }
        if let Some(cl) = resp.hdr("content-length").and_then(|v| std::str::from_utf8(v).ok()).and_then(|v| v.parse::<usize>().ok()) {
            if cl != resp.body.len() {
                return violation(fs(focus), "wire-length-mismatch", describe());
            }
        }
    }
    Ok(RunOut { sig, nontrivial: !accepted.is_empty() || is_gz })
}

// ------------------------------------------------------------------ mode 2: the crate's own file entity on the wire

/// `serve(ChunkedReadFile)` behind real hyper: real file, positioned reads behind the read seam
/// (short reads, truncation / EIO / EINTR at a drawn read instant), simulated socket. A response
/// whose file was truncated under it must not look complete to the client; a complete one
/// carries exactly the file's bytes.
fn run_file(ctx: &mut Ctx) -> Result<RunOut, Violation> {
    use crate::engine_d::{install_hook, scratch_dir, write_file, FaultD, HookState};
    type Crf = http_serve::ChunkedReadFile<SimData, SimError>;
    let focus = ctx.focus;
    let t = &mut ctx.tape;
    let len = match t.draw(8) {
        0 => 0,
        1 => 1,
        2 => 65_535 + t.draw(3) as u64,
        3 => 131_072,
        4 => 200_001,
        5 => 2 + t.draw(300) as u64,
        _ => t.draw(150_000) as u64,
    };
    let seed = t.draw(u32::MAX) as u64;
    let pos = |t: &mut Tape| if len == 0 { 0 } else { [0, 1, 65_535, 65_536, 65_537, len - 1, len / 2][t.draw(7) as usize].min(len - 1).max(0) };
    // request: whole, one range, or two ranges (fault-free runs only)
    let with_fault = t.chance(1, 2);
    let (range_hdr, want): (Option<String>, Vec<(u64, u64)>) = match t.draw(if with_fault { 3 } else { 5 }) {
        0 => (None, vec![]),
        1 | 2 if len > 0 => {
            let a = pos(t);
            let b = (a + t.draw(100_000) as u64).min(len - 1);
            if t.chance(1, 3) { (Some(format!("bytes={a}-")), vec![(a, len - 1)]) } else { (Some(format!("bytes={a}-{b}")), vec![(a, b)]) }
        }
        3 | 4 if len > 4000 => {
            let a = pos(t).min(len - 300);
            let b = a + t.draw(200) as u64;
            let c = pos(t).min(len - 300);
            let d = c + t.draw(200) as u64;
            (Some(format!("bytes={a}-{b}, {c}-{d}")), vec![(a, b), (c, d)])
        }
        _ => (None, vec![]),
    };
    let range_end = want.iter().map(|w| w.1 + 1).max().unwrap_or(len);
    let range_start = want.iter().map(|w| w.0).min().unwrap_or(0);
    let dir = scratch_dir();
    let path = dir.join("w");
    let _ = std::fs::remove_file(&path);
    let wfile = write_file(&path, seed, len);
    let clamp: Vec<u32> = match t.draw(4) {
        0 => vec![],
        1 => vec![1; 8],
        2 => (0..12).map(|_| 1 + t.draw(70_000)).collect(),
        _ => (0..12).map(|_| if t.chance(1, 2) { 0 } else { 1 + t.draw(5000) }).collect(),
    };
    let fault = if with_fault && len > 0 {
        let at = t.draw(4);
        Some((at, match t.draw(4) {
            0 => FaultD::Truncate(range_start),
            1 => FaultD::Truncate(range_start + t.below(range_end - range_start)),
            2 => FaultD::Eio,
            _ => FaultD::Eintr,
        }))
    } else {
        None
    };
    let hook = Rc::new(RefCell::new(HookState { reads: 0, fault, fired: None, clamp, wfile, log: Vec::new() }));
    let keep_alive = t.chance(1, 2);
    let io = Rc::new(RefCell::new(IoState::default()));
    let mut plan = ReqPlan { method: if t.chance(1, 10) { "HEAD".into() } else { "GET".into() }, specs: None, headers: vec![], has_if_range: false, corrupted: false };
    if let Some(r) = &range_hdr {
        plan.headers.push(("range".into(), r.clone().into_bytes()));
    }
    let req = render_request(&plan, "HTTP/1.1", &[]);
    {
        let mut s = io.borrow_mut();
        s.input = req.clone();
        s.in_avail = req.len();
        gen_transport(t, &mut s, false, 0);
    }
    let crf = match Crf::new(std::fs::File::open(&path).expect("open"), http::HeaderMap::new()) {
        Ok(c) => c,
        Err(e) => return violation("C18", "regular-file-refused", e.to_string()),
    };
    install_hook(&hook);
    struct HookReset;
    impl Drop for HookReset {
        fn drop(&mut self) {
            http_serve::verif::set_read_hook(None);
        }
    }
    let _hr = HookReset;
    let seen: Rc<RefCell<Option<(u16, Vec<(String, Vec<u8>)>)>>> = Rc::new(RefCell::new(None));
    let svc = {
        let (seen, crf) = (seen.clone(), crf.clone());
        hyper::service::service_fn(move |req: http::Request<hyper::body::Incoming>| {
            let (seen, crf) = (seen.clone(), crf.clone());
            async move {
                let resp = http_serve::serve(crf, &req);
                *seen.borrow_mut() = Some((resp.status().as_u16(), resp.headers().iter().map(|(k, v)| (k.as_str().to_string(), v.as_bytes().to_vec())).collect()));
                Ok::<_, std::convert::Infallible>(resp)
            }
        })
    };
    let mut builder = hyper::server::conn::http1::Builder::new();
    builder.auto_date_header(false).keep_alive(keep_alive).half_close(true);
    let conn = builder.serve_connection(SimIo(io.clone()), svc);
    let mut conn = Some(Box::pin(conn));
    let (flag, waker) = new_waker();
    let mut out = Outcome { finished: None, polls: 0, stalled: false, panic: None, spurious: 0 };
    let mut eof_given = false;
    for _ in 0..10_000 {
        run_until_idle(&mut conn, &mut out, &flag, &waker);
        if out.finished.is_some() || out.panic.is_some() || out.stalled {
            break;
        }
        if environment_step(None, &io) {
            continue;
        }
        if !eof_given {
            eof_given = true;
            let mut s = io.borrow_mut();
            s.in_eof = true;
            if let Some(w) = s.read_waker.take() {
                drop(s);
                w.wake();
            }
            continue;
        }
        break;
    }
    drop(conn);
    http_serve::verif::set_read_hook(None);
    let s = io.borrow();
    let h = hook.borrow();
    // (ETag and Last-Modified of a real file carry its inode and its real modification time)
    // (their hex fields also vary in width, so the wire's length stays out of the hash as well)
    ctx.ev("wire", 0, hash_wire(&s.wire, &[b"\r\ndate: ", b"\r\netag: ", b"\r\nlast-modified: "]));
    ctx.ev("reads", h.reads as u64, h.fired.is_some() as u64);
    let stats = &mut *ctx.stats;
    stats.add("f_conn_polls", out.polls);
    stats.add("f_file_reads", h.reads as u64);
    stats.add("f_wire_bytes", s.wire.len() as u64);
    if let Some((f, _)) = &h.fired {
        stats.bump(match f {
            FaultD::Truncate(_) => "fault_truncate",
            FaultD::Extend(_) => "fault_extend",
            FaultD::Eintr => "fault_eintr",
            FaultD::Eio => "fault_eio",
        });
    }
    let describe = || format!("{} {:?} on a {len}-byte file; fault {:?} fired {:?}; reads {:?}; conn outcome {:?}; wire {} bytes: {:?}", plan.method, range_hdr, fault, h.fired, h.log.iter().take(8).collect::<Vec<_>>(), out.finished, s.wire.len(), String::from_utf8_lossy(&s.wire[..s.wire.len().min(240)]));
    if ctx.trace.is_some() {
        let d = describe();
        ctx.note(|| d);
    }
    if ctx.run_index < 64 {
        ctx.sample = Some(json!({"file_len": len, "range": range_hdr, "fault": format!("{fault:?}"), "fired": format!("{:?}", h.fired), "wire_bytes": s.wire.len()}));
    }
    let sig = mix(mix(len.min(70_000) / 1000, want.len() as u64), match h.fired { Some((FaultD::Truncate(_), _)) => 1, Some((FaultD::Eio, _)) => 2, Some((FaultD::Eintr, _)) => 3, Some(_) => 4, None => 0 } ^ (h.reads.min(6) as u64) << 4 ^ (s.short_writes.min(2)) << 8);
    if let Some(p) = &out.panic {
        return violation(fs(focus), "panic", format!("{p}; {}", describe()));
    }
    if out.stalled {
        return violation(fs(focus), "hang", describe());
    }
    let Some((status, hdrs)) = seen.borrow().clone() else { return Ok(RunOut { sig, nontrivial: false }) };
    let head = plan.method == "HEAD";
    let closed = out.finished.is_some() || s.shutdown;
    let resp = match parse_response(&s.wire, 0, head, closed) {
        Ok(Some(r)) => r,
        Ok(None) => {
            if h.fired.is_some() && matches!(out.finished, Some(Err(_))) {
                return Ok(RunOut { sig, nontrivial: true }); // failed before anything was flushed
            }
            return violation(fs(focus), "no-response-on-the-wire", describe());
        }
        Err(e) => return violation(fs(focus), "malformed-wire", format!("{e}; {}", describe())),
    };
    if resp.status != status || hdrs.iter().any(|(k, v)| !resp.headers.iter().any(|x| x.0 == *k && x.1 == *v)) {
        return violation(fs(focus), "wire-head-differs", describe());
    }
    if head {
        if !resp.body.is_empty() {
            return violation(fs(focus), "head-body-on-the-wire", describe());
        }
        return Ok(RunOut { sig, nontrivial: false });
    }
    // A truncation that leaves the range short of bytes must surface as an aborted transfer.
    if let Some((FaultD::Truncate(to), off)) = h.fired {
        if to < range_end && off < range_end && matches!(status, 200 | 206) {
            if resp.complete {
                return violation(fs(focus), "truncated-file-response-looks-complete-on-the-wire", describe());
            }
            if !closed {
                return violation(fs(focus), "connection-kept-open-after-failed-body", describe());
            }
            return Ok(RunOut { sig, nontrivial: true });
        }
    }
    if !resp.complete {
        if h.fired.is_some() {
            return Ok(RunOut { sig, nontrivial: true }); // a failed read may abort the transfer
        }
        return violation(fs(focus), "response-incomplete-on-the-wire", describe());
    }
    // Complete: exactly the file's bytes.
    let expect_status = if want.is_empty() { 200 } else { 206 };
    if status != expect_status && !(len == 0) {
        return violation(fs(focus), "status", format!("expected {expect_status}; {}", describe()));
    }
    let segs = vec![Seg::Lit(resp.body.clone())];
    if status == 200 {
        let mut c = Cur::new(&segs, seed);
        if let Err(e) = c.take_entity(0, len).and_then(|_| if c.at_end() { Ok(()) } else { Err("extra bytes".to_string()) }) {
            return violation(fs(focus), "wire-body-differs-from-the-file", format!("{e}; {}", describe()));
        }
    } else if status == 206 && want.len() == 1 {
        let (a, b) = want[0];
        let mut c = Cur::new(&segs, seed);
        if let Err(e) = c.take_entity(a, b - a + 1).and_then(|_| if c.at_end() { Ok(()) } else { Err("extra bytes".to_string()) }) {
            return violation(fs(focus), "wire-body-differs-from-the-file", format!("{e}; {}", describe()));
        }
    } else if status == 206 {
        let ct = resp.hdr("content-type").unwrap_or(b"");
        match mpart::boundary_of(ct).and_then(|bd| mpart::parse(&segs, seed, &bd)) {
            Err(e) => return violation(fs(focus), "malformed-multipart-on-the-wire", format!("{e}; {}", describe())),
            Ok(parts) => {
                if parts.len() != want.len() {
                    return violation(fs(focus), "multipart-parts", format!("{} parts for {} ranges; {}", parts.len(), want.len(), describe()));
                }
            }
        }
    }
    Ok(RunOut { sig, nontrivial: true })
}
