//! The tape: the single source of nondeterminism of a simulated run.
//!
//! In search mode draws come from a hand-written xoshiro256** generator seeded from
//! (VERIF_SEED, run index) and are recorded; in replay mode they are read back from a recorded
//! tape (exhausted tape => 0, out-of-range value => value mod bound). A run *is* its tape.

#[derive(Clone)]
pub struct Rng {
    s: [u64; 4],
}

fn splitmix64(x: &mut u64) -> u64 {
    *x = x.wrapping_add(0x9E37_79B9_7F4A_7C15);
    let mut z = *x;
    z = (z ^ (z >> 30)).wrapping_mul(0xBF58_476D_1CE4_E5B9);
    z = (z ^ (z >> 27)).wrapping_mul(0x94D0_49BB_1331_11EB);
    z ^ (z >> 31)
}

impl Rng {
    pub fn new(seed: u64, stream: u64) -> Rng {
        let mut x = seed ^ stream.wrapping_mul(0xD6E8_FEB8_6659_FD93) ^ 0x5851_F42D_4C95_7F2D;
        let mut s = [0u64; 4];
        for v in s.iter_mut() {
            *v = splitmix64(&mut x);
        }
        if s == [0; 4] {
            s[0] = 1;
        }
        Rng { s }
    }

    pub fn next_u64(&mut self) -> u64 {
        let r = self.s[1].wrapping_mul(5).rotate_left(7).wrapping_mul(9);
        let t = self.s[1] << 17;
        self.s[2] ^= self.s[0];
        self.s[3] ^= self.s[1];
        self.s[1] ^= self.s[2];
        self.s[0] ^= self.s[3];
        self.s[2] ^= t;
        self.s[3] = self.s[3].rotate_left(45);
        r
    }
}

enum Src {
    Rng(Rng),
    Replay { data: Vec<u32>, pos: usize },
}

pub struct Tape {
    src: Src,
    /// Every value handed out, after reduction to its bound: the canonical recorded tape.
    pub rec: Vec<u32>,
}

impl Tape {
    pub fn search(seed: u64, run: u64) -> Tape {
        Tape {
            src: Src::Rng(Rng::new(seed, run)),
            rec: Vec::with_capacity(64),
        }
    }

    pub fn replay(data: Vec<u32>) -> Tape {
        Tape {
            src: Src::Replay { data, pos: 0 },
            rec: Vec::with_capacity(64),
        }
    }

    /// Uniform-ish value in `0..bound`. 0 is by convention the simplest choice (no fault, keep
    /// running the current thread, smallest size), which is what shrinking moves towards.
    pub fn draw(&mut self, bound: u32) -> u32 {
        assert!(bound > 0);
        let v = match &mut self.src {
            Src::Rng(r) => ((r.next_u64() >> 16) % bound as u64) as u32,
            Src::Replay { data, pos } => {
                let v = data.get(*pos).copied().unwrap_or(0) % bound;
                *pos += 1;
                v
            }
        };
        self.rec.push(v);
        v
    }

    /// True with probability num/den; the all-zero tape answers false.
    pub fn chance(&mut self, num: u32, den: u32) -> bool {
        self.draw(den) >= den - num
    }

    pub fn pick<T: Copy>(&mut self, xs: &[T]) -> T {
        xs[self.draw(xs.len() as u32) as usize]
    }

    /// Value in `0..bound` for 64-bit bounds.
    pub fn below(&mut self, bound: u64) -> u64 {
        assert!(bound > 0);
        if bound <= u32::MAX as u64 {
            return self.draw(bound as u32) as u64;
        }
        let hi = self.draw(u32::MAX) as u64;
        let lo = self.draw(u32::MAX) as u64;
        ((hi << 32) | lo) % bound
    }

    /// Value in `lo..=hi`.
    pub fn range(&mut self, lo: u64, hi: u64) -> u64 {
        assert!(lo <= hi);
        if lo == 0 && hi == u64::MAX {
            let a = self.draw(u32::MAX) as u64;
            let b = self.draw(u32::MAX) as u64;
            return (a << 32) | b;
        }
        lo + self.below(hi - lo + 1)
    }
}

/// FNV-1a style mixing used for event hashes and run signatures (stable across versions).
pub fn mix(h: u64, v: u64) -> u64 {
    let mut h = h ^ v;
    h = h.wrapping_mul(0x0000_0100_0000_01B3);
    h ^= h >> 29;
    h = h.wrapping_mul(0xBF58_476D_1CE4_E5B9);
    h ^ (h >> 32)
}

pub fn hash_str(s: &str) -> u64 {
    let mut h = 0xcbf2_9ce4_8422_2325u64;
    for b in s.bytes() {
        h ^= b as u64;
        h = h.wrapping_mul(0x0000_0100_0000_01B3);
    }
    h
}
