//! The simulated consumer (hyper's role): owns the Context, samples size_hint/is_end_stream
//! before every poll, parks on Pending until a waker it handed out fires, over-polls on demand.

use crate::a_world::World;
use crate::core::catch;
use crate::simdata::{data_to_seg, push_seg, Seg, SimData, SimError};
use crate::tape::Tape;
use bytes::Buf;
use http_body::Body as _;
use std::pin::Pin;
use std::sync::atomic::{AtomicBool, AtomicU64, Ordering};
use std::sync::Arc;
use std::task::{Context, Poll, Wake, Waker};

pub struct SimWaker {
    pub woken: AtomicBool,
    pub wakes: AtomicU64,
}

impl Wake for SimWaker {
    fn wake(self: Arc<Self>) {
        self.wake_by_ref()
    }
    fn wake_by_ref(self: &Arc<Self>) {
        self.woken.store(true, Ordering::SeqCst);
        self.wakes.fetch_add(1, Ordering::SeqCst);
    }
}

/// True when the waker was woken since the last call: a `Pending` answered right after that is a
/// cooperative yield ("poll me again"), not "nothing available".
pub fn took_wake(flag: &SimWaker) -> bool {
    flag.woken.swap(false, Ordering::SeqCst)
}

pub fn new_waker() -> (Arc<SimWaker>, Waker) {
    let w = Arc::new(SimWaker {
        woken: AtomicBool::new(false),
        wakes: AtomicU64::new(0),
    });
    (w.clone(), Waker::from(w))
}

#[derive(Clone, Debug, PartialEq, Eq)]
pub enum Step {
    Data(u64),
    Err(String),
    End,
    Pending,
    Panic(String),
}

#[derive(Clone, Debug)]
pub struct Sample {
    pub lower: u64,
    pub upper: Option<u64>,
    pub eos: bool,
}

#[derive(Clone, Copy, Debug, PartialEq, Eq)]
pub enum Policy {
    /// Stop as soon as `is_end_stream()` is true (what hyper does).
    HyperLike,
    /// Poll until `None` or an error.
    Drain,
}

#[derive(Default)]
pub struct DrainLog {
    /// (sample taken before the poll, result of the poll); Pending polls included.
    pub steps: Vec<(Sample, Step)>,
    /// The sample taken before the first poll (present even if no poll followed).
    pub initial: Option<Sample>,
    /// Index into `steps` of the first terminal event (End / Err / Panic), if any.
    pub terminal: Option<usize>,
    /// The consumer stopped because `is_end_stream()` was true, at this step count.
    pub stopped_by_eos: Option<usize>,
    /// Data delivered before the first terminal event / eos stop.
    pub segs: Vec<Seg>,
    pub total: u128,
    /// Data frames (non-empty) seen after the first terminal event or after the eos stop.
    pub data_after_terminal: u64,
    /// Frames of any size (also empty ones) seen after the first terminal event.
    pub frames_after_terminal: u64,
    pub err_after_eos: bool,
    pub stalled: bool,
    pub too_many_polls: bool,
    pub hint_panic: Option<String>,
    pub sim_time_advanced_ns: u128,
    pub fresh_wakers: u64,
}

pub type SimBody = http_serve::Body<SimData, SimError>;

/// Drains `body`. `overpoll` = extra polls after the first terminal event (or after the
/// end-of-stream stop of the hyper-like policy).
pub fn drain(
    body: &mut Pin<Box<SimBody>>,
    world: &Arc<World>,
    policy: Policy,
    overpoll: u32,
    fresh_waker_p8: u32,
) -> DrainLog {
    let mut log = DrainLog::default();
    let (mut flag, mut waker) = new_waker();
    let mut extra_left = overpoll;
    let mut stopped = false;
    let max_polls = 200_000;
    loop {
        if log.steps.len() >= max_polls {
            log.too_many_polls = true;
            break;
        }
        let sample = match catch(|| {
            let h = body.size_hint();
            (h.lower(), h.upper(), body.is_end_stream())
        }) {
            Ok((lower, upper, eos)) => Sample { lower, upper, eos },
            Err(p) => {
                log.hint_panic = Some(p);
                break;
            }
        };
        if log.initial.is_none() {
            log.initial = Some(sample.clone());
        }
        let after = log.terminal.is_some() || stopped;
        if !after && policy == Policy::HyperLike && sample.eos {
            stopped = true;
            log.stopped_by_eos = Some(log.steps.len());
        }
        let after = log.terminal.is_some() || stopped;
        if after {
            if extra_left == 0 {
                break;
            }
            extra_left -= 1;
        }
        // Same or fresh waker for this poll (drawn from the tape the world holds).
        let fresh = {
            let mut st = world.st.lock().unwrap();
            let t: &mut Tape = st.tape.as_mut().expect("tape lent to the world");
            fresh_waker_p8 > 0 && t.chance(fresh_waker_p8, 8)
        };
        if fresh {
            (flag, waker) = new_waker();
            log.fresh_wakers += 1;
        }
        flag.woken.store(false, Ordering::SeqCst);
        let mut cx = Context::from_waker(&waker);
        let r = catch(|| body.as_mut().poll_frame(&mut cx));
        let step = match r {
            Err(p) => Step::Panic(p),
            Ok(Poll::Pending) => Step::Pending,
            Ok(Poll::Ready(None)) => Step::End,
            Ok(Poll::Ready(Some(Err(e)))) => Step::Err(format!("{e:?}")),
            Ok(Poll::Ready(Some(Ok(frame)))) => match frame.into_data() {
                Ok(d) => {
                    let n = d.remaining() as u64;
                    if after {
                        if log.terminal.is_some() {
                            log.frames_after_terminal += 1;
                        }
                        if n > 0 {
                            log.data_after_terminal += 1;
                        }
                    } else {
                        push_seg(&mut log.segs, data_to_seg(&d));
                        log.total += n as u128;
                    }
                    Step::Data(n)
                }
                Err(_) => Step::Err("trailers frame".into()),
            },
        };
        let idx = log.steps.len();
        log.steps.push((sample, step.clone()));
        match step {
            Step::Pending => {
                if after {
                    // A fused body has no business returning Pending, but it is not data.
                    continue;
                }
                if flag.woken.load(Ordering::SeqCst) {
                    continue;
                }
                // Park: advance simulated time to the next event and deliver it.
                let ev = {
                    let mut st = world.st.lock().unwrap();
                    if st.events.is_empty() {
                        None
                    } else {
                        let mut best = 0;
                        for i in 1..st.events.len() {
                            if (st.events[i].0, st.events[i].1) < (st.events[best].0, st.events[best].1) {
                                best = i;
                            }
                        }
                        let e = st.events.remove(best);
                        let adv = (e.0 as u128).saturating_sub(st.now_ns);
                        st.now_ns += adv;
                        log.sim_time_advanced_ns += adv;
                        Some(e.2)
                    }
                };
                match ev {
                    Some(w) => {
                        w.wake();
                        // Keep delivering events until the waker of the latest poll fires.
                        let mut guard = 0;
                        while !flag.woken.load(Ordering::SeqCst) && guard < 64 {
                            guard += 1;
                            let next = {
                                let mut st = world.st.lock().unwrap();
                                if st.events.is_empty() {
                                    None
                                } else {
                                    Some(st.events.remove(0).2)
                                }
                            };
                            match next {
                                Some(w) => w.wake(),
                                None => break,
                            }
                        }
                        if !flag.woken.load(Ordering::SeqCst) {
                            log.stalled = true;
                            break;
                        }
                    }
                    None => {
                        log.stalled = true;
                        break;
                    }
                }
            }
            Step::End | Step::Err(_) | Step::Panic(_) => {
                if log.terminal.is_none() && !stopped {
                    log.terminal = Some(idx);
                } else if stopped && matches!(step, Step::Err(_)) {
                    log.err_after_eos = true;
                }
                if matches!(step, Step::Panic(_)) {
                    break;
                }
            }
            Step::Data(_) => {}
        }
    }
    log
}
