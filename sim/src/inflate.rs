//! Independent RFC 1951 inflater, RFC 1952 gzip member parser and CRC-32. Shares no code with
//! flate2 / miniz_oxide (the code under test). It decodes a *prefix* as far as complete symbols
//! go, which is exactly "a streaming decoder fed only the frames available so far".

struct Bits<'a> {
    data: &'a [u8],
    pos: usize, // bit position
}

impl<'a> Bits<'a> {
    fn bits(&mut self, n: u32) -> Option<u32> {
        if self.pos + n as usize > self.data.len() * 8 {
            return None;
        }
        let mut v = 0u32;
        for i in 0..n {
            let p = self.pos + i as usize;
            let b = (self.data[p >> 3] >> (p & 7)) & 1;
            v |= (b as u32) << i;
        }
        self.pos += n as usize;
        Some(v)
    }
    fn align(&mut self) {
        self.pos = (self.pos + 7) & !7;
    }
}

struct Huff {
    count: [u16; 16],
    symbol: Vec<u16>,
}

impl Huff {
    fn new(lengths: &[u8]) -> Result<Huff, String> {
        let mut count = [0u16; 16];
        for &l in lengths {
            count[l as usize] += 1;
        }
        // Over-subscription check (incomplete codes are allowed, as in zlib's puff, for the
        // single-code distance case).
        let mut left: i32 = 1;
        for len in 1..16 {
            left <<= 1;
            left -= count[len] as i32;
            if left < 0 {
                return Err("over-subscribed Huffman code".into());
            }
        }
        let mut offs = [0u16; 16];
        for len in 1..15 {
            offs[len + 1] = offs[len] + count[len];
        }
        let mut symbol = vec![0u16; lengths.len()];
        for (sym, &l) in lengths.iter().enumerate() {
            if l != 0 {
                symbol[offs[l as usize] as usize] = sym as u16;
                offs[l as usize] += 1;
            }
        }
        Ok(Huff { count, symbol })
    }

    /// None = out of input; Err = invalid code.
    fn decode(&self, b: &mut Bits) -> Option<Result<u16, String>> {
        let mut code: i32 = 0;
        let mut first: i32 = 0;
        let mut index: i32 = 0;
        for len in 1..16 {
            code |= b.bits(1)? as i32;
            let count = self.count[len] as i32;
            if code - count < first {
                return Some(Ok(self.symbol[(index + (code - first)) as usize]));
            }
            index += count;
            first += count;
            first <<= 1;
            code <<= 1;
        }
        Some(Err("invalid Huffman code".into()))
    }
}

const LBASE: [u16; 29] = [3, 4, 5, 6, 7, 8, 9, 10, 11, 13, 15, 17, 19, 23, 27, 31, 35, 43, 51, 59, 67, 83, 99, 115, 131, 163, 195, 227, 258];
const LEXT: [u8; 29] = [0, 0, 0, 0, 0, 0, 0, 0, 1, 1, 1, 1, 2, 2, 2, 2, 3, 3, 3, 3, 4, 4, 4, 4, 5, 5, 5, 5, 0];
const DBASE: [u16; 30] = [1, 2, 3, 4, 5, 7, 9, 13, 17, 25, 33, 49, 65, 97, 129, 193, 257, 385, 513, 769, 1025, 1537, 2049, 3073, 4097, 6145, 8193, 12289, 16385, 24577];
const DEXT: [u8; 30] = [0, 0, 0, 0, 1, 1, 2, 2, 3, 3, 4, 4, 5, 5, 6, 6, 7, 7, 8, 8, 9, 9, 10, 10, 11, 11, 12, 12, 13, 13];

#[derive(Debug, Clone, PartialEq, Eq)]
pub enum End {
    /// Final block completed; deflate data ended at this byte offset (within the deflate data).
    Finished(usize),
    /// Ran out of input at a symbol boundary; everything before it has been decoded.
    NeedMore,
    Invalid(String),
}

/// Inflates as much of `data` as complete symbols allow.
pub fn inflate_prefix(data: &[u8]) -> (Vec<u8>, End) {
    let mut out = Vec::new();
    let mut b = Bits { data, pos: 0 };
    loop {
        let block_start = b.pos;
        let Some(last) = b.bits(1) else { return (out, End::NeedMore) };
        let Some(typ) = b.bits(2) else {
            b.pos = block_start;
            return (out, End::NeedMore);
        };
        match typ {
            0 => {
                b.align();
                let Some(len) = b.bits(16) else { return (out, End::NeedMore) };
                let Some(nlen) = b.bits(16) else { return (out, End::NeedMore) };
                if len != (!nlen & 0xFFFF) {
                    return (out, End::Invalid("stored block LEN/NLEN mismatch".into()));
                }
                let start = b.pos / 8;
                let avail = data.len() - start;
                let n = (len as usize).min(avail);
                out.extend_from_slice(&data[start..start + n]);
                b.pos += n * 8;
                if n < len as usize {
                    return (out, End::NeedMore);
                }
            }
            1 | 2 => {
                let (lit, dist) = if typ == 1 {
                    let mut l = [0u8; 288];
                    for (i, v) in l.iter_mut().enumerate() {
                        *v = match i {
                            0..=143 => 8,
                            144..=255 => 9,
                            256..=279 => 7,
                            _ => 8,
                        };
                    }
                    (Huff::new(&l).unwrap(), Huff::new(&[5u8; 30]).unwrap())
                } else {
                    match dynamic_tables(&mut b) {
                        None => {
                            b.pos = block_start;
                            return (out, End::NeedMore);
                        }
                        Some(Err(e)) => return (out, End::Invalid(e)),
                        Some(Ok(t)) => t,
                    }
                };
                loop {
                    let save = b.pos;
                    let sym = match lit.decode(&mut b) {
                        None => {
                            b.pos = save;
                            return (out, End::NeedMore);
                        }
                        Some(Err(e)) => return (out, End::Invalid(e)),
                        Some(Ok(s)) => s,
                    };
                    if sym < 256 {
                        out.push(sym as u8);
                    } else if sym == 256 {
                        break;
                    } else {
                        let s = (sym - 257) as usize;
                        if s >= 29 {
                            return (out, End::Invalid("invalid length symbol".into()));
                        }
                        let Some(eb) = b.bits(LEXT[s] as u32) else {
                            b.pos = save;
                            return (out, End::NeedMore);
                        };
                        let len = LBASE[s] as usize + eb as usize;
                        let ds = match dist.decode(&mut b) {
                            None => {
                                b.pos = save;
                                return (out, End::NeedMore);
                            }
                            Some(Err(e)) => return (out, End::Invalid(e)),
                            Some(Ok(s)) => s as usize,
                        };
                        if ds >= 30 {
                            return (out, End::Invalid("invalid distance symbol".into()));
                        }
                        let Some(eb) = b.bits(DEXT[ds] as u32) else {
                            b.pos = save;
                            return (out, End::NeedMore);
                        };
                        let d = DBASE[ds] as usize + eb as usize;
                        if d > out.len() {
                            return (out, End::Invalid("distance beyond start of output".into()));
                        }
                        for _ in 0..len {
                            let c = out[out.len() - d];
                            out.push(c);
                        }
                    }
                }
            }
            _ => return (out, End::Invalid("reserved block type".into())),
        }
        if last == 1 {
            return (out, End::Finished(b.pos.div_ceil(8)));
        }
    }
}

fn dynamic_tables(b: &mut Bits) -> Option<Result<(Huff, Huff), String>> {
    const ORDER: [usize; 19] = [16, 17, 18, 0, 8, 7, 9, 6, 10, 5, 11, 4, 12, 3, 13, 2, 14, 1, 15];
    let nlen = b.bits(5)? as usize + 257;
    let ndist = b.bits(5)? as usize + 1;
    let ncode = b.bits(4)? as usize + 4;
    if nlen > 286 || ndist > 30 {
        return Some(Err("bad dynamic block counts".into()));
    }
    let mut lengths = [0u8; 320];
    for &o in ORDER.iter().take(ncode) {
        lengths[o] = b.bits(3)? as u8;
    }
    let lencode = match Huff::new(&lengths[..19]) {
        Ok(h) => h,
        Err(e) => return Some(Err(e)),
    };
    let mut lens = vec![0u8; nlen + ndist];
    let mut i = 0;
    while i < nlen + ndist {
        let sym = match lencode.decode(b)? {
            Ok(s) => s,
            Err(e) => return Some(Err(e)),
        };
        if sym < 16 {
            lens[i] = sym as u8;
            i += 1;
        } else {
            let (val, rep) = match sym {
                16 => {
                    if i == 0 {
                        return Some(Err("repeat with no previous length".into()));
                    }
                    (lens[i - 1], 3 + b.bits(2)? as usize)
                }
                17 => (0, 3 + b.bits(3)? as usize),
                _ => (0, 11 + b.bits(7)? as usize),
            };
            if i + rep > nlen + ndist {
                return Some(Err("too many code lengths".into()));
            }
            for _ in 0..rep {
                lens[i] = val;
                i += 1;
            }
        }
    }
    if lens[256] == 0 {
        return Some(Err("no end-of-block code".into()));
    }
    let lit = match Huff::new(&lens[..nlen]) {
        Ok(h) => h,
        Err(e) => return Some(Err(e)),
    };
    let dist = match Huff::new(&lens[nlen..]) {
        Ok(h) => h,
        Err(e) => return Some(Err(e)),
    };
    Some(Ok((lit, dist)))
}

pub fn crc32(data: &[u8]) -> u32 {
    let mut crc = 0xFFFF_FFFFu32;
    for &b in data {
        crc ^= b as u32;
        for _ in 0..8 {
            crc = if crc & 1 != 0 { (crc >> 1) ^ 0xEDB8_8320 } else { crc >> 1 };
        }
    }
    !crc
}

#[derive(Debug, Clone, PartialEq, Eq)]
pub enum GzState {
    /// Header not complete yet.
    NeedHeader,
    /// Header fine, deflate stream not finished (all complete symbols decoded).
    Streaming,
    /// Deflate finished but the 8-byte trailer is incomplete.
    NeedTrailer,
    /// One complete member; `trailing` bytes follow it.
    Complete { trailing: usize },
    Invalid(String),
}

/// Decodes a prefix of a gzip stream.
pub fn gunzip_prefix(data: &[u8]) -> (Vec<u8>, GzState) {
    if data.len() < 10 {
        // Whatever is there must be a prefix of a valid header.
        let magic = [0x1f, 0x8b, 0x08];
        for (i, &m) in magic.iter().enumerate() {
            if i < data.len() && data[i] != m {
                return (Vec::new(), GzState::Invalid(format!("bad gzip magic/method byte {i}: {:#04x}", data[i])));
            }
        }
        return (Vec::new(), GzState::NeedHeader);
    }
    if data[0] != 0x1f || data[1] != 0x8b {
        return (Vec::new(), GzState::Invalid("bad gzip magic".into()));
    }
    if data[2] != 8 {
        return (Vec::new(), GzState::Invalid("compression method is not deflate".into()));
    }
    let flg = data[3];
    if flg & 0xE0 != 0 {
        return (Vec::new(), GzState::Invalid("reserved FLG bits set".into()));
    }
    let mut p = 10usize;
    if flg & 4 != 0 {
        if data.len() < p + 2 {
            return (Vec::new(), GzState::NeedHeader);
        }
        let xlen = data[p] as usize | (data[p + 1] as usize) << 8;
        p += 2 + xlen;
        if data.len() < p {
            return (Vec::new(), GzState::NeedHeader);
        }
    }
    for bit in [8u8, 16] {
        if flg & bit != 0 {
            match data[p.min(data.len())..].iter().position(|&b| b == 0) {
                Some(z) => p += z + 1,
                None => return (Vec::new(), GzState::NeedHeader),
            }
        }
    }
    if flg & 2 != 0 {
        p += 2;
        if data.len() < p {
            return (Vec::new(), GzState::NeedHeader);
        }
    }
    let (out, end) = inflate_prefix(&data[p..]);
    match end {
        End::Invalid(e) => (out, GzState::Invalid(e)),
        End::NeedMore => (out, GzState::Streaming),
        End::Finished(n) => {
            let t = p + n;
            if data.len() < t + 8 {
                return (out, GzState::NeedTrailer);
            }
            let crc = u32::from_le_bytes([data[t], data[t + 1], data[t + 2], data[t + 3]]);
            let isize = u32::from_le_bytes([data[t + 4], data[t + 5], data[t + 6], data[t + 7]]);
            if crc != crc32(&out) {
                return (out, GzState::Invalid("CRC-32 mismatch".into()));
            }
            if isize != out.len() as u32 {
                return (out, GzState::Invalid("ISIZE mismatch".into()));
            }
            (out, GzState::Complete { trailing: data.len() - t - 8 })
        }
    }
}
