//! Engine A's simulated world: entity (storage), its streams, the event queue and the clock.

use crate::simdata::{SimData, SimError};
use crate::tape::Tape;
use futures_core::Stream;
use http::header::{HeaderMap, HeaderName, HeaderValue};
use std::ops::Range;
use std::pin::Pin;
use std::sync::{Arc, Mutex};
use std::task::{Context, Poll, Waker};
use std::time::{Duration, SystemTime, UNIX_EPOCH};

#[derive(Clone, Copy, Debug, PartialEq, Eq, PartialOrd, Ord)]
pub enum FaultKind {
    EarlyEnd,
    Error,
    EmptyThenEnd,
    ExtraByte,
    ExtraChunk,
    /// All bytes delivered, then an error instead of the end (not a truncation).
    ErrorAtEnd,
}

impl FaultKind {
    pub fn name(self) -> &'static str {
        match self {
            FaultKind::EarlyEnd => "early_end",
            FaultKind::Error => "error",
            FaultKind::EmptyThenEnd => "empty_chunks_then_end",
            FaultKind::ExtraByte => "extra_byte",
            FaultKind::ExtraChunk => "extra_chunk",
            FaultKind::ErrorAtEnd => "error_at_end",
        }
    }
    pub fn is_short(self) -> bool {
        matches!(self, FaultKind::EarlyEnd | FaultKind::Error | FaultKind::EmptyThenEnd)
    }
    pub fn is_long(self) -> bool {
        matches!(self, FaultKind::ExtraByte | FaultKind::ExtraChunk)
    }
}

/// The fault that actually fired during a run (at most one per run).
#[derive(Clone, Debug)]
pub struct Fired {
    pub kind: FaultKind,
    /// Index of the `get_range` call whose stream misbehaved.
    pub call: usize,
    /// Byte offset within that range at which it happened.
    pub at: u64,
    pub range_len: u64,
    /// Chunks the stream had yielded before the fault.
    pub chunks_before: u32,
    pub pending_before: bool,
}

#[derive(Clone, Debug, Default)]
pub struct StreamKnobs {
    pub faults: Vec<FaultKind>,
    pub pending: bool,
    pub empty_chunks: bool,
    pub deferred_wakes: bool,
    /// 0 = whole range in one chunk whenever possible; 1 = tiny; 2 = mixed.
    pub chunking: u32,
    /// Probability (x/16) that a given get_range call is chosen as the faulty one.
    pub fault_p16: u32,
}

pub struct WorldState {
    pub tape: Option<Tape>,
    pub calls: Vec<Range<u64>>,
    pub knobs: StreamKnobs,
    pub fired: Option<Fired>,
    /// The fault chosen for this run (it fires only if the stream is polled at that point).
    pub planned: Option<Fired>,
    pub fault_armed: bool,
    /// Further faults that may still be planned in this run (compensating pairs: one stream too
    /// long, another too short by the same amount).
    pub faults_left: u32,
    pub fired_all: Vec<Fired>,
    pub events: Vec<(u64, u64, Waker)>,
    pub seq: u64,
    pub now_ns: u128,
    pub pendings: u64,
    pub deferred: u64,
    pub empty_chunks: u64,
    pub empty_run_chunks: u64,
    pub chunks: u64,
    pub polls_after_done: u64,
    pub contract_breach: Option<String>,
}

pub struct World {
    pub st: Mutex<WorldState>,
}

impl World {
    pub fn new(now_ns: u128) -> Arc<World> {
        Arc::new(World {
            st: Mutex::new(WorldState {
                tape: None,
                calls: Vec::new(),
                knobs: StreamKnobs::default(),
                fired: None,
                planned: None,
                fault_armed: false,
                faults_left: 0,
                fired_all: Vec::new(),
                events: Vec::new(),
                seq: 0,
                now_ns,
                pendings: 0,
                deferred: 0,
                empty_chunks: 0,
                empty_run_chunks: 0,
                chunks: 0,
                polls_after_done: 0,
                contract_breach: None,
            }),
        })
    }
}

pub fn to_system_time(ns: u128) -> SystemTime {
    UNIX_EPOCH + Duration::new((ns / 1_000_000_000) as u64, (ns % 1_000_000_000) as u32)
}

#[derive(Clone)]
pub struct Meta {
    pub len: u64,
    pub seed: u64,
    pub etag: Option<Vec<u8>>,
    pub mtime_ns: Option<u128>,
    /// (name, value, append?) in insertion order.
    pub headers: Vec<(String, Vec<u8>)>,
}

#[derive(Clone)]
pub struct SimEntity {
    pub meta: Arc<Meta>,
    pub world: Arc<World>,
}

impl http_serve::Entity for SimEntity {
    type Error = SimError;
    type Data = SimData;

    fn len(&self) -> u64 {
        self.meta.len
    }

    fn get_range(
        &self,
        range: Range<u64>,
    ) -> Pin<Box<dyn Stream<Item = Result<SimData, SimError>> + Send + Sync>> {
        let mut st = self.world.st.lock().unwrap();
        if range.start > range.end || range.end > self.meta.len {
            st.contract_breach = Some(format!(
                "get_range({}..{}) on an entity of length {}",
                range.start, range.end, self.meta.len
            ));
        }
        let call = st.calls.len();
        st.calls.push(range.clone());
        let len = range.end.saturating_sub(range.start);
        // Decide whether this stream is the faulty one of the run.
        let mut fault = None;
        if st.fault_armed && !st.knobs.faults.is_empty() {
            let p = st.knobs.fault_p16;
            let kinds = st.knobs.faults.clone();
            let tape = st.tape.as_mut().expect("tape lent to the world");
            if tape.chance(p, 16) {
                let kind = tape.pick(&kinds);
                let at = match kind {
                    FaultKind::EarlyEnd | FaultKind::Error | FaultKind::EmptyThenEnd => {
                        if len == 0 {
                            None
                        } else {
                            // start / end-1 / middle / anywhere
                            Some(match tape.draw(4) {
                                0 => 0,
                                1 => len - 1,
                                2 => len / 2,
                                _ => tape.below(len),
                            })
                        }
                    }
                    _ => Some(len),
                };
                if let Some(at) = at {
                    fault = Some((kind, at));
                    if st.faults_left == 0 {
                        st.fault_armed = false;
                    } else {
                        st.faults_left -= 1;
                    }
                    st.planned = Some(Fired { kind, call, at, range_len: len, chunks_before: 0, pending_before: false });
                }
            }
        }
        // Half of the streams are of the kind whose own size_hint gives exhaustion away.
        let hint_policy = st.tape.as_mut().map(|t| t.draw(2)).unwrap_or(0);
        // A run of consecutive empty chunks (legal for any entity: it adds no bytes) at one place
        // of the stream: its start, its end (after the last byte, before `None`), the fault
        // position, or anywhere. The length comes from the source dictionary half of the time, so
        // that a limit on "chunks without progress" added by a change is met exactly, one below
        // and one above. The run may be followed by one `Pending`.
        let mut run = (0u64, 0u32, false);
        let empty_knob = st.knobs.empty_chunks;
        if let Some(t) = st.tape.as_mut() {
            if empty_knob && t.chance(1, 5) {
                let n = if t.chance(1, 2) {
                    crate::dict::pick_in(t.draw(1 << 16), 2, 400).unwrap_or(5) as u32
                } else {
                    2 + t.draw(12)
                };
                let at = match t.draw(4) {
                    0 => 0,
                    1 => len,
                    2 => fault.map(|(_, at)| at).unwrap_or(len).min(len),
                    _ => t.below(len.saturating_add(1).max(1)),
                };
                run = (at, n, t.chance(1, 3));
            }
        }
        Box::pin(SimStream {
            world: self.world.clone(),
            seed: self.meta.seed,
            start: range.start,
            len,
            pos: 0,
            fault,
            call,
            done: false,
            chunks: 0,
            pend_budget: if crate::core::deep() { 12 } else { 6 },
            empty_budget: if crate::core::deep() { 8 } else { 4 },
            empties_to_emit: 0,
            had_pending: false,
            extra_emitted: false,
            extra_more: 0,
            hint_policy,
            run_at: run.0,
            run_left: run.1,
            run_then_pending: run.2,
        })
    }

    fn add_headers(&self, h: &mut HeaderMap) {
        for (k, v) in &self.meta.headers {
            h.append(
                HeaderName::from_bytes(k.as_bytes()).unwrap(),
                HeaderValue::from_bytes(v).unwrap(),
            );
        }
    }

    fn etag(&self) -> Option<HeaderValue> {
        self.meta
            .etag
            .as_ref()
            .map(|e| HeaderValue::from_bytes(e).unwrap())
    }

    fn last_modified(&self) -> Option<SystemTime> {
        self.meta.mtime_ns.map(to_system_time)
    }
}

pub struct SimStream {
    world: Arc<World>,
    seed: u64,
    start: u64,
    len: u64,
    pos: u64,
    fault: Option<(FaultKind, u64)>,
    call: usize,
    done: bool,
    chunks: u32,
    pend_budget: u32,
    empty_budget: u32,
    empties_to_emit: u32,
    had_pending: bool,
    extra_emitted: bool,
    extra_more: u32,
    /// 0 = the default `Stream::size_hint` (0, None); 1 = a stream that, like `stream::iter` or
    /// `stream::empty`, reports an upper bound of 0 items once it knows it has nothing more.
    hint_policy: u32,
    /// Planned run of `run_left` consecutive empty chunks when `pos == run_at`.
    run_at: u64,
    run_left: u32,
    run_then_pending: bool,
}

impl SimStream {
    /// True when every further poll can only return `None` (possibly after `Pending`).
    fn exhausted(&self) -> bool {
        if self.done {
            return true;
        }
        if self.empties_to_emit > 0 {
            return false;
        }
        if self.run_left > 0 && self.pos == self.run_at {
            return false;
        }
        match self.fault {
            Some((FaultKind::EarlyEnd, at)) if at == self.pos => true,
            Some((_, at)) if at == self.pos => false,
            _ => self.pos == self.len,
        }
    }

    fn fire(&mut self, st: &mut WorldState, kind: FaultKind) {
        let f = Fired {
            kind,
            call: self.call,
            at: self.pos,
            range_len: self.len,
            chunks_before: self.chunks,
            pending_before: self.had_pending,
        };
        if !st.fired_all.iter().any(|x| x.call == f.call) {
            st.fired_all.push(f);
        }
        if st.fired.is_some() {
            return;
        }
        st.fired = Some(Fired {
            kind,
            call: self.call,
            at: self.pos,
            range_len: self.len,
            chunks_before: self.chunks,
            pending_before: self.had_pending,
        });
    }
}

impl Stream for SimStream {
    type Item = Result<SimData, SimError>;

    fn size_hint(&self) -> (usize, Option<usize>) {
        if self.hint_policy == 1 && self.exhausted() {
            (0, Some(0))
        } else {
            (0, None)
        }
    }

    fn poll_next(self: Pin<&mut Self>, cx: &mut Context<'_>) -> Poll<Option<Self::Item>> {
        let this = Pin::into_inner(self);
        let world = this.world.clone();
        let mut st = world.st.lock().unwrap();
        if this.done {
            // Fused: "the entity's own streams stay finished once they have finished or failed".
            st.polls_after_done += 1;
            return Poll::Ready(None);
        }
        let knobs = st.knobs.clone();
        let mut tape = st.tape.take().expect("tape lent to the world");
        let r = (|| {
            // Pending?
            if knobs.pending && this.pend_budget > 0 && tape.chance(1, 4) {
                this.pend_budget -= 1;
                this.had_pending = true;
                st.pendings += 1;
                if knobs.deferred_wakes && tape.chance(1, 2) {
                    let delay = [1u64, 1_000, 1_000_000, 1_000_000_000, 3_600_000_000_000]
                        [tape.draw(5) as usize];
                    st.seq += 1;
                    let at = (st.now_ns as u64).saturating_add(delay);
                    let seq = st.seq;
                    st.events.push((at, seq, cx.waker().clone()));
                    st.deferred += 1;
                } else {
                    cx.waker().wake_by_ref();
                }
                return Poll::Pending;
            }
            // Pending empties of an EmptyThenEnd fault.
            if this.empties_to_emit > 0 {
                this.empties_to_emit -= 1;
                st.empty_chunks += 1;
                if this.empties_to_emit == 0 {
                    // next poll ends the stream
                }
                return Poll::Ready(Some(Ok(SimData::ent(this.seed, this.start + this.pos, 0))));
            }
            // The planned run of empty chunks, before whatever else is due at this position.
            if this.pos == this.run_at && this.empties_to_emit == 0 && !this.extra_emitted {
                if this.run_left > 0 {
                    this.run_left -= 1;
                    st.empty_chunks += 1;
                    st.empty_run_chunks += 1;
                    return Poll::Ready(Some(Ok(SimData::ent(this.seed, this.start.wrapping_add(this.pos), 0))));
                }
                if this.run_then_pending {
                    this.run_then_pending = false;
                    this.had_pending = true;
                    st.pendings += 1;
                    cx.waker().wake_by_ref();
                    return Poll::Pending;
                }
            }
            // Fault due here?
            if let Some((kind, at)) = this.fault {
                if at == this.pos {
                    match kind {
                        FaultKind::EarlyEnd => {
                            this.fire(&mut st, kind);
                            this.done = true;
                            return Poll::Ready(None);
                        }
                        FaultKind::Error | FaultKind::ErrorAtEnd => {
                            this.fire(&mut st, kind);
                            this.done = true;
                            return Poll::Ready(Some(Err(SimError::Injected(this.call as u32))));
                        }
                        FaultKind::EmptyThenEnd => {
                            this.fire(&mut st, kind);
                            this.fault = Some((FaultKind::EarlyEnd, at));
                            this.empties_to_emit = 1 + tape.draw(3);
                            // fired is recorded once; the EarlyEnd that follows keeps it.
                            this.empties_to_emit -= 1;
                            st.empty_chunks += 1;
                            return Poll::Ready(Some(Ok(SimData::ent(
                                this.seed,
                                this.start + this.pos,
                                0,
                            ))));
                        }
                        FaultKind::ExtraChunk => {
                            if !this.extra_emitted {
                                this.extra_emitted = true;
                                this.fire(&mut st, kind);
                                let k = 1 + tape.draw(3) as u64;
                                st.chunks += 1;
                                // The overrun may be followed by further items (some empty).
                                this.empties_to_emit = 0;
                                this.extra_more = tape.draw(3);
                                return Poll::Ready(Some(Ok(SimData::ent(
                                    this.seed,
                                    this.start.wrapping_add(this.pos),
                                    k,
                                ))));
                            }
                            if this.extra_more > 0 {
                                this.extra_more -= 1;
                                let k = [0u64, 0, 1][tape.draw(3) as usize];
                                return Poll::Ready(Some(Ok(SimData::ent(
                                    this.seed,
                                    this.start.wrapping_add(this.pos),
                                    k,
                                ))));
                            }
                            this.done = true;
                            return Poll::Ready(None);
                        }
                        FaultKind::ExtraByte => {
                            // handled when the final chunk is cut (below); at == len means the
                            // range was empty or the final chunk could not be extended.
                            if !this.extra_emitted {
                                this.extra_emitted = true;
                                this.fire(&mut st, kind);
                                st.chunks += 1;
                                return Poll::Ready(Some(Ok(SimData::ent(
                                    this.seed,
                                    this.start.wrapping_add(this.pos),
                                    1,
                                ))));
                            }
                            this.done = true;
                            return Poll::Ready(None);
                        }
                    }
                }
            }
            if this.pos == this.len {
                this.done = true;
                return Poll::Ready(None);
            }
            // Empty chunk?
            if knobs.empty_chunks && this.empty_budget > 0 && tape.chance(1, 6) {
                this.empty_budget -= 1;
                st.empty_chunks += 1;
                return Poll::Ready(Some(Ok(SimData::ent(this.seed, this.start + this.pos, 0))));
            }
            // A data chunk, never crossing the fault position.
            let limit = match this.fault {
                Some((k, at)) if at > this.pos && !matches!(k, FaultKind::ExtraByte) => at,
                _ => this.len,
            };
            let room = limit - this.pos;
            let mut n = match knobs.chunking {
                0 => room,
                1 => 1 + tape.below(room.min(3)),
                _ => match tape.draw(6) {
                    0 => 1,
                    1 => room,
                    2 => (room / 2).max(1),
                    3 => 1 + tape.below(room.min(7)),
                    4 => 1 + tape.below(room.min(70_000)),
                    _ => 1 + tape.below(room),
                },
            };
            // Keep runs bounded: after 12 chunks hand over the rest at once.
            if this.chunks >= if crate::core::deep() { 40 } else { 12 } {
                n = room;
            }
            let mut emit = n;
            if let Some((FaultKind::ExtraByte, _)) = this.fault {
                if this.pos + n == this.len && n < usize::MAX as u64 && !this.extra_emitted {
                    // The final chunk is one byte too long.
                    emit = n + 1;
                    this.extra_emitted = true;
                    this.fire(&mut st, FaultKind::ExtraByte);
                    this.fault = None;
                }
            }
            let d = SimData::ent(this.seed, this.start + this.pos, emit);
            this.pos += n;
            this.chunks += 1;
            st.chunks += 1;
            Poll::Ready(Some(Ok(d)))
        })();
        st.tape = Some(tape);
        r
    }
}
