//! The check table: which engines decide which property, with what budgets.

use crate::core::{Check, Engine, Part};
use crate::engine_a;
use crate::engine_b;
use crate::engine_c;
use crate::engine_d;
use crate::engine_f;

pub const A: Engine = Engine { name: "serve-sim", run: engine_a::run };
pub const C: Engine = Engine { name: "thread-sim", run: engine_c::run };
pub const D: Engine = Engine { name: "file-sim", run: engine_d::run };
pub const B: Engine = Engine { name: "chunk-sim", run: engine_b::run };
pub const F: Engine = Engine { name: "wire-sim", run: engine_f::run };

fn part(engine: Engine, mode: u32, q: u64, t: u64, what: &'static str) -> Part {
    Part { engine, mode, runs_quick: q, runs_thorough: t, what }
}

pub fn all() -> Vec<Check> {
    vec![
        Check {
            prop: "C01",
            level: "exploration",
            parts: vec![part(A, 0, 2_000_000, 100_000_000, "serve() over fault-free simulated entities; announced vs delivered bytes"),
                        part(F, 0, 150_000, 10_000_000, "serve() behind the real hyper HTTP/1 connection over a simulated socket: framing and Content-Length as a client sees them on the wire")],
            rule: "one run = one seeded (clock, entity, request, stream chunking/Pending plan, consumer policy); non-trivial = the body ended cleanly so the length comparison was made; distinct = distinct (status, body shape, length class, methods/headers present, chunk-count bucket, Pending seen, policy) signatures",
            assumptions: vec![],
        },
        Check {
            prop: "C02",
            level: "exploration",
            parts: vec![part(A, 0, 2_000_000, 100_000_000, "serve() over fault-free simulated entities; body identity by entity offsets"),
                        part(D, 2, 40_000, 2_000_000, "serve() over the crate's own ChunkedReadFile: sequences of single- and multi-range responses on one entity, body bytes vs the file bytes the headers name"),
                        part(F, 0, 150_000, 10_000_000, "the bytes inside the HTTP framing on the wire (real hyper, simulated socket with short writes and back-pressure) vs the entity bytes the headers name")],
            rule: "as C01; non-trivial = a 200 or 206 whose body was compared with the entity bytes its headers name",
            assumptions: vec![],
        },
        Check {
            prop: "C06",
            level: "exploration",
            parts: vec![part(A, 0, 2_000_000, 100_000_000, "multi-range requests; independent multipart parser"),
                        part(F, 0, 150_000, 10_000_000, "multipart bodies parsed from the wire behind real hyper")],
            rule: "requests with 2..9 range specs on entities large enough for multipart; non-trivial = a multipart/byteranges 206 was served and parsed; distinct additionally by part count and decimal width of the length",
            assumptions: vec!["a suffix spec with n >= length and a spec with last < first are read differently by RFC 7233 and by the implementation; requests containing one are checked for internal consistency only (that choice belongs to C03, not claimed)"],
        },
        Check {
            prop: "C07",
            level: "fault_enumeration",
            parts: vec![part(A, 0, 2_000_000, 100_000_000, "one stream fault per run, sampled over shape x kind x part x position x chunk index x Pending"),
                        part(F, 0, 200_000, 10_000_000, "entity stream faults behind real hyper: a truncated response must not look complete on the wire and the connection must be closed")],
            rule: "exactly one entity-stream fault per run; non-trivial = a fault actually fired in a 200/206 body; distinct = signature including fault kind, faulty get_range call, position class, chunks before the fault, Pending before the fault; grid_cells lists the (shape|kind|part|position|chunk|pending) cells hit",
            assumptions: vec![],
        },
        Check {
            prop: "C08",
            level: "exploration",
            parts: vec![part(B, 0, 1_000_000, 10_000_000, "producer/consumer operation histories over the real BodyWriter + Body, identity coding"),
                        part(C, 0, 60_000, 5_000_000, "the same oracle (frames = accepted bytes, clean end) with the producer on its own thread, interleaved inside the operations"),
                        part(F, 1, 150_000, 10_000_000, "streaming_body behind real hyper: producer operations interleaved with the connection task; chunked / close-delimited framing de-framed by an independent parser")],
            rule: "one run = seeded config (chunk size, level, Accept-Encoding, payload kind) + up to 12 interleaved producer/consumer operations + drop + drain; non-trivial = bytes were written and compared with what the client decoded; distinct = (config, operation kinds in order); grid_cells = short-sequence grid: chunk size in {1,2,3,4,7} x every sequence of <= 3 operation kinds out of 10 (5550 cells), sampled not enumerated",
            assumptions: vec![],
        },
        Check {
            prop: "C09",
            level: "exploration",
            parts: vec![part(B, 0, 200_000, 3_000_000, "as C08 with gzip negotiated, levels 1..9; independent inflater after every flush and at the end"),
                        part(C, 0, 40_000, 3_000_000, "one valid gzip member = accepted bytes with the producer on its own thread"),
                        part(F, 1, 60_000, 5_000_000, "gzip streaming body behind real hyper: the de-framed wire bytes are one gzip member, and decodable after every flush once the connection is idle")],
            rule: "as C08; the client decodes with a hand-written RFC 1951/1952 decoder; non-trivial = a gzip body was produced and decoded",
            assumptions: vec!["the independent inflater (sim/src/inflate.rs) is trusted; it shares no code with flate2/miniz_oxide"],
        },
        Check {
            prop: "C10",
            level: "exploration",
            parts: vec![part(C, 0, 150_000, 15_000_000, "real producer thread x real consumer thread under the baton scheduler (random / sticky / PCT), lock and wake granularity"),
                        part(F, 1, 100_000, 10_000_000, "the real hyper connection task as the consumer: polled only when woken, so a wake-up lost after a flush, drop or abort leaves the response incomplete on the wire")],
            rule: "one run = producer program (<= 6 ops of write/flush/wait-until-delivered/abort/drop) x consumer loop (park on Pending, <= 2 spurious re-polls, same or fresh waker) x one schedule; non-trivial = at least one context switch; distinct = distinct (thread, event kind) sequences",
            assumptions: vec!["all state shared between BodyWriter and Body lives under the one instrumented mutex (chunker.rs), so lock-granularity interleaving is complete w.r.t. observable behaviour; a change adding atomics/unsafe shared state would need new scheduling points"],
        },
        Check {
            prop: "C11",
            level: "fault_enumeration",
            parts: vec![part(B, 0, 300_000, 8_000_000, "abort / body-drop injected at every position of chunk-sim histories, plus queue-release scenarios"),
                        part(C, 0, 100_000, 8_000_000, "abort and body drop racing with the other side under the baton scheduler"),
                        part(F, 1, 150_000, 10_000_000, "abort and client disconnect (socket write errors at a drawn byte) behind real hyper: aborted message never complete on the wire; writer told after hyper dropped the body")],
            rule: "fault = abort or body drop at a drawn position of a drawn operation history (raw and gzip); non-trivial = the fault was injected and judged; the release scenarios measure this thread's live heap bytes",
            assumptions: vec!["a flush with nothing at all to hand over may return Ok after the body was dropped (weaker reading, see DESIGN.md 4.8)"],
        },
        Check {
            prop: "C17",
            level: "exploration",
            parts: vec![part(B, 0, 300_000, 5_000_000, "streaming_body over Accept-Encoding x level x method x request representation; client decodes by the response header"),
                        part(F, 1, 100_000, 5_000_000, "coding headers as they appear on the wire and the body decoded according to them, behind real hyper")],
            rule: "as C08 with the full configuration space; non-trivial = headers judged and (for non-HEAD) the body decoded according to Content-Encoding and compared",
            assumptions: vec!["the real should_gzip is the oracle for the negotiation, as the property states (its own correctness is C16, not claimed)"],
        },
        Check {
            prop: "C12",
            level: "exploration",
            parts: vec![part(A, 0, 2_000_000, 100_000_000, "size_hint/is_end_stream sampled before every poll of serve() bodies and of Body::from/empty"),
                        part(B, 0, 300_000, 8_000_000, "the same monitor on streaming bodies across write/flush/abort/drop histories"),
                        part(C, 0, 60_000, 4_000_000, "the same monitor sampled concurrently with a running producer thread"),
                        part(D, 0, 20_000, 1_000_000, "the same monitor on serve(ChunkedReadFile) bodies incl. truncation")],
            rule: "every poll of every run is preceded by a sample; non-trivial = more than one sample; distinct as C01",
            assumptions: vec!["for serve() only contract-honouring entities count: fault-free streams and streams failing early with an Err"],
        },
        Check {
            prop: "C13",
            level: "exploration",
            parts: vec![part(A, 0, 2_000_000, 100_000_000, "hostile and corrupted requests, any method, extreme entities; panics caught around serve() and every poll"),
                        part(F, 0, 100_000, 10_000_000, "hostile requests through hyper's parser into serve(), client disconnects mid-response; no panic in the connection task")],
            rule: "structured requests with request-path corruption (bit flips, truncation, insertion, hostile numbers, duplicated header lines); non-trivial = serve returned and the body was drained; distinct as C01",
            assumptions: vec!["input dimension only as wide as the generator (a coverage-guided fuzzer would go further); crash-freedom is the by-product invariant of the simulation"],
        },
        Check {
            prop: "C14",
            level: "exploration",
            parts: vec![part(A, 0, 2_000_000, 100_000_000, "two-request histories under a simulated clock that also steps backwards; validators echoed")],
            rule: "GET, clock move, then a request echoing a drawn non-empty subset of the served validators; non-trivial = the echo request was sent; distinct = (status1, status2, echoed subset, clock move kind, etag kind, mtime kind)",
            assumptions: vec!["date echoes are asserted only when the entity's mtime was not in the future at the first request (otherwise the served Last-Modified is the clamped Date and no server could answer 304 later)"],
        },
        Check {
            prop: "C15",
            level: "exploration",
            parts: vec![part(A, 0, 1_500_000, 80_000_000, "every generated request replayed as HEAD against the same world, clock advanced in between"),
                        part(B, 0, 100_000, 5_000_000, "streaming_body for HEAD vs GET: same headers, no writer, empty body"),
                        part(F, 0, 100_000, 5_000_000, "GET and HEAD twins on one keep-alive connection (also pipelined): same head, no body bytes on the wire")],
            rule: "GET/HEAD pairs; non-trivial = both exchanges completed and were compared; distinct as C01 plus the clock advance",
            assumptions: vec![],
        },
        Check {
            prop: "C18",
            level: "fault_enumeration",
            parts: vec![part(D, 0, 40_000, 2_000_000, "real ChunkedReadFile over real files; truncate/extend/short read/EINTR/EIO at a drawn read instant; metadata scenarios"),
                        part(D, 1, 40_000, 3_000_000, "two streams over one ChunkedReadFile on two simulated threads, interleaved at every lseek/read/pread (system-call seam)"),
                        part(F, 2, 20_000, 2_000_000, "serve(ChunkedReadFile) behind the real hyper connection: real file, short reads, truncation / EIO / EINTR at a drawn read instant; a truncated response must not look complete on the wire, a complete one carries the file's bytes")],
            rule: "one run = file size class x range shape x read-size policy x (optional) one fault at a drawn read index, polled directly or through serve(); non-trivial = a non-empty range was streamed and judged (or a metadata scenario ran); grid = size class | range shape | fault | read index | via serve",
            assumptions: vec!["the file system under /verif/sim/target/filesim behaves like a local POSIX file system (pread returns 0 at/after EOF)"],
        },
        Check {
            prop: "C20",
            level: "fault_enumeration",
            parts: vec![part(A, 0, 2_000_000, 100_000_000, "over-polling 1..4 times after every kind of terminal event of serve() bodies"),
                        part(B, 0, 300_000, 8_000_000, "over-polling streaming bodies after clean end and after abort"),
                        part(D, 0, 20_000, 1_000_000, "over-polling serve(ChunkedReadFile) bodies after clean end and after a truncation error"),
                        part(C, 0, 100_000, 8_000_000, "over-polling a streaming body on a consumer thread while the producer thread is still inside abort/drop")],
            rule: "one stream fault (or none) per run, then k extra polls after the first terminal event; non-trivial = at least one extra poll happened; grid = body shape x terminal kind x extra polls",
            assumptions: vec!["the simulated entity's own streams are fused (stay finished), as the property presupposes"],
        },
    ]
}

pub fn probes(prop: &str) -> Vec<&'static str> {
    match prop {
        "C01" => vec!["clean_end", "multipart_served", "status_416", "status_304", "status_405", "entity_len_over_4GiB", "consumer_parked_then_woken", "stream_empty_chunks"],
        "C02" => vec!["c02_bodies_compared", "multipart_served", "status_206", "entity_len_over_4GiB"],
        "C06" => vec!["c06_multipart_bodies_parsed", "c06_with_matching_if_range", "entity_len_over_4GiB"],
        "C07" => vec!["fault_early_end", "fault_error", "fault_empty_chunks_then_end", "fault_extra_byte", "fault_extra_chunk", "fault_preceded_by_pending", "multipart_served"],
        "C12" => vec!["c12_samples_checked", "c12_body_from_conversions", "fault_error", "multipart_served"],
        "C13" => vec!["c13_corrupted_requests", "status_400", "status_405", "status_416"],
        "C14" => vec!["c14_echo_if_none_match", "c14_echo_if_modified_since", "c14_echo_if_match", "c14_echo_if_unmodified_since", "c14_echo_if_range", "clock_moved_backwards", "c14_subsecond_mtime", "clock_before_mtime_at_second_request"],
        "C15" => vec!["c15_pairs_compared", "c15_multipart_pairs"],
        "C20" => vec!["c20_extra_polls", "fault_error", "fault_early_end", "fault_extra_chunk", "multipart_served"],
        _ => vec![],
    }
}

pub fn common_assumptions() -> Vec<String> {
    vec![
        "a clean batch is evidence over the sampled seeds, not proof".into(),
        "simulated clock and modification times stay within [Unix epoch, year 9999), httpdate's documented domain".into(),
        "sim is built with debug-assertions and overflow-checks on, so wrapped arithmetic in http-serve surfaces as a panic".into(),
    ]
}

pub fn components_real(prop: &str) -> Vec<&'static str> {
    let a = "http_serve::serve, range/etag/conditional logic, Body, ExactLenStream, MultipartStream (all of /repo/src as built from the working tree); http, http-body, httpdate, bytes crates";
    let b = "http_serve::streaming_body, StreamingBodyBuilder, BodyWriter, chunker Writer/Reader, Body (real); flate2 + miniz_oxide (real, as http-serve's dependency); std::sync::Mutex behind the instrumented wrapper";
    let c = "the same real writer/reader pair on two real OS threads; real std Mutex (try_lock) under the verif-hooks wrapper; real Waker plumbing";
    let d = "http_serve::ChunkedReadFile, platform::read_at incl. the real pread(2) on real files of the local file system; serve() on top of it; tokio::task::block_in_place (outside a runtime: a plain call)";
    let e = "miri-sim: the same real http-serve code (built without verif-hooks), std threads, std Mutex/Condvar, flate2 - all executed by the Miri interpreter";
    let f = "wire-sim: the real hyper 1.4 HTTP/1 server connection (dispatcher, encoder, httparse) driving the real http-serve bodies";
    match prop {
        "C01" | "C06" | "C07" => vec![a, f],
        "C14" => vec![a],
        "C13" => vec![a, e, f],
        "C02" => vec![a, d, e, f],
        "C09" | "C17" => vec![b, f],
        "C08" => vec![b, c, e, f],
        "C10" => vec![b, c, e],
        "C11" => vec![b, c, e, f],
        "C12" | "C20" => vec![a, b, c, d, e],
        "C15" => vec![a, b, f],
        "C18" => vec![d, e],
        _ => vec![],
    }
}

pub fn components_stub(prop: &str) -> Vec<&'static str> {
    let a = "Entity (simulated storage with seeded chunking, Pending, faults); consumer in place of hyper (seeded policy, wakers, over-polling); wall clock (verif-hooks clock seam); no tokio runtime, no sockets";
    let b = "producer (seeded write/flush/abort/drop program) and consumer in place of the application and hyper; the client's decoder is the harness's own inflater; per-thread counting allocator";
    let c = "thread scheduling: a seeded baton scheduler decides who runs at every lock acquire/release and wake; wakers are harness objects";
    let d = "file contents and metadata written by the harness; read seam (verif-hooks) injects truncation, extension, short reads, EINTR/EIO; system-call seam makes lseek/read/pread scheduling points in the concurrent part; no tokio runtime";
    let e = "miri-sim: thread scheduling by Miri's seeded pre-emptive scheduler; consumer and producer programs in place of hyper and the application; (files scenario) scratch files written by the harness";
    let f = "wire-sim: the socket (piecewise reads, short writes, back-pressure, client disconnect at a drawn byte), the HTTP client (independent response parser), the executor (polls only when woken), entity / producer as in serve-sim / chunk-sim";
    match prop {
        "C01" | "C06" | "C07" => vec![a, f],
        "C14" => vec![a],
        "C13" => vec![a, e, f],
        "C02" => vec![a, d, e, f],
        "C09" | "C17" => vec![b, f],
        "C08" => vec![b, c, e, f],
        "C10" => vec![b, c, e],
        "C11" => vec![b, c, e, f],
        "C12" | "C20" => vec![a, b, c, d, e],
        "C15" => vec![a, b, f],
        "C18" => vec![d, e],
        _ => vec![],
    }
}
