//! Engine A workload generation: entities, clocks and structured requests. Everything is drawn
//! from the tape; the generator knows what it built (which specs are satisfiable, which
//! validators match), so the oracles never have to parse a request.

use crate::a_world::Meta;
use crate::tape::Tape;
use http::header::{HeaderName, HeaderValue};
use http::{Method, Request};
use std::ops::Range;
use std::time::{Duration, UNIX_EPOCH};

pub const NS: u128 = 1_000_000_000;
/// Last instant httpdate can format (year 9999); the simulated clock and mtimes stay below.
pub const MAX_SECS: u64 = 253_402_300_799;

pub fn gen_len(t: &mut Tape, bias: u32) -> u64 {
    // One run in eight takes its length from (or near a multiple of) the source dictionary.
    if t.chance(1, 8) {
        let k = t.draw(1 << 16);
        if let Some(v) = crate::dict::pick_in(k, if bias == 1 { 300 } else { 0 }, u64::MAX) {
            return match t.draw(4) {
                0 => v.saturating_mul(2 + t.draw(8) as u64),
                1 => v.saturating_add(t.draw(100) as u64),
                _ => v,
            };
        }
    }
    // bias 0: anything; 1: large enough for multipart; 2: small (cheap, many chunkings)
    let class = match bias {
        1 => 3 + t.draw(7),
        2 => t.draw(4),
        _ => t.draw(10),
    };
    match class {
        0 => t.draw(3) as u64,                  // 0, 1, 2
        1 => 3 + t.draw(298) as u64,            // small
        2 => [10u64, 99, 100, 101, 240, 999, 1000][t.draw(7) as usize],
        3 => [4095u64, 4096, 4097, 65535, 65536, 65537, 131072, 200001][t.draw(8) as usize],
        4 => {
            // 10^k - 1, 10^k, 10^k + 1: every decimal width
            let k = 1 + t.draw(19);
            let p = 10u64.pow(k);
            [p - 1, p, p + 1][t.draw(3) as usize]
        }
        5 => [
            (1u64 << 32) - 1,
            1 << 32,
            (1 << 32) + 1,
            (1 << 63) - 1,
            1 << 63,
            (1 << 63) + 1,
            u64::MAX - 1,
            u64::MAX,
        ][t.draw(8) as usize],
        6 => 300 + t.draw(100_000) as u64,
        7 => u64::MAX - t.draw(2000) as u64, // within the multipart-overflow zone
        8 => 1_000 + t.draw(9_000) as u64,
        _ => t.range(0, u64::MAX),
    }
}

const OPAQUES: &[&str] = &["foo", "a, b", " ", "", "x y", "0123456789abcdef:10:5e0c:0", "W/", "é", "v1\\", "a\\b", "\\\\", "*", "a,b"];

pub fn gen_etag(t: &mut Tape) -> Option<Vec<u8>> {
    match t.draw(5) {
        0 => None,
        1 | 2 | 3 => Some(format!("\"{}\"", t.pick(OPAQUES)).into_bytes()),
        _ => Some(format!("W/\"{}\"", t.pick(OPAQUES)).into_bytes()),
    }
}

pub fn gen_clock(t: &mut Tape) -> u128 {
    let secs: u64 = match t.draw(7) {
        0 => 1_700_000_000 + t.draw(100_000_000) as u64,
        1 => 784_111_777, // the RFC example date
        2 => t.draw(3) as u64 * 86_400, // at / near the epoch
        3 => MAX_SECS - 86_400 * 2 - t.draw(1000) as u64,
        4 => 951_782_400 + t.draw(3) as u64 * 86_400 - 86_400, // around 2000-02-29
        5 => 4_102_444_800 - 1 + t.draw(3) as u64, // around 2100-01-01
        _ => t.below(MAX_SECS - 86_400 * 3),
    };
    let frac: u128 = match t.draw(5) {
        0 => 0,
        1 => 1,
        2 => 999_999_999,
        3 => 1_000_000,
        _ => t.draw(1_000_000_000) as u128,
    };
    secs as u128 * NS + frac
}

/// Modification time relative to the clock. Never before the epoch, never beyond year 9999
/// (httpdate's documented domain; see DESIGN.md).
pub fn gen_mtime(t: &mut Tape, now_ns: u128) -> Option<u128> {
    let base: i128 = match t.draw(14) {
        0 => return None,
        1 => return Some(0),
        12 => ((now_ns / NS + 1) * NS) as i128, // start of the next second
        13 => ((now_ns / NS + 1) * NS) as i128 + [1i128, 200_000_000, 999_999_999][t.draw(3) as usize],
        2 => now_ns as i128 - 86_400 * NS as i128,
        3 => now_ns as i128 - NS as i128,
        4 => now_ns as i128 - 1,
        5 => now_ns as i128,
        6 => now_ns as i128 + 1,
        7 => now_ns as i128 + NS as i128,
        8 => now_ns as i128 + 86_400 * NS as i128,
        9 => (now_ns / NS * NS) as i128, // start of the current second
        _ => t.below((now_ns / NS).max(1) as u64) as i128 * NS as i128,
    };
    if t.chance(1, 40) {
        // a garbage mtime far beyond year 9999: Last-Modified is clamped to Date, so serve copes
        return Some((MAX_SECS as u128 + 1 + t.draw(1_000_000) as u128 * 86_400) * NS + t.draw(1_000_000_000) as u128);
    }
    let base = base.clamp(0, (MAX_SECS as i128 - 1) * NS as i128) as u128;
    let secs = base / NS;
    let frac = match t.draw(6) {
        0 => base % NS,
        1 => 0,
        2 => 1_000_000,
        3 => 1,
        4 => 999_999_999,
        _ => t.draw(1_000_000_000) as u128,
    };
    Some(secs * NS + frac)
}

const HNAMES: &[&str] = &[
    "content-type",
    "x-a",
    "content-language",
    "x-long-header-name-abcdefghijklmnopqrstuvwxyz-0123456789",
    "cache-tag",
    // what real applications (and this crate's own dir module) put there as well
    "content-encoding",
    "vary",
    "cache-control",
    "expires",
    "content-location",
    "content-disposition",
];
const HVALUES: &[&str] = &[
    "application/octet-stream",
    "v",
    "",
    "text/html; charset=utf-8",
    "0123456789012345678901234567890123456789012345678901234567890123456789012345678901234567890123456789",
    "a: b",
    "gzip",
    "accept-encoding",
    "max-age=60, public",
];

pub fn gen_headers(t: &mut Tape) -> Vec<(String, Vec<u8>)> {
    let n = [0u32, 1, 1, 2, 3, 4][t.draw(6) as usize];
    (0..n)
        .map(|_| {
            let name = t.pick(HNAMES).to_string();
            if t.chance(1, 8) {
                // A long value (a token, words, or opaque bytes); lengths also come from the
                // integers that occur in the crate's source, e.g. a line-length limit.
                let len = match t.draw(3) {
                    0 => crate::dict::pick_in(t.draw(1 << 16), 100, 9000).unwrap_or(1000) as usize,
                    1 => [255usize, 256, 997, 998, 999, 1000, 4096, 8190][t.draw(8) as usize],
                    _ => 100 + t.draw(3000) as usize,
                };
                let kind = t.draw(3);
                let v: Vec<u8> = (0..len)
                    .map(|i| match kind {
                        0 => b"ABCDEFGHIJKLMNOPQRSTUVWXYZabcdefghijklmnopqrstuvwxyz0123456789+/"[(i * 7 + len) % 64],
                        1 => if i % 9 == 8 && i + 1 != len { b' ' } else { b'a' + (i % 26) as u8 },
                        _ => 0x80 + ((i * 13) % 0x7f) as u8,
                    })
                    .collect();
                return (name, v);
            }
            if t.chance(1, 10) {
                // A value that resembles the protocol syntax the crate itself writes: a fragment
                // of one of its own string literals (a delimiter, a header name, a unit), bare or
                // embedded in other text.
                let ss = crate::dict::strings();
                if !ss.is_empty() {
                    let frag = &ss[t.draw(ss.len() as u32) as usize];
                    let pre = ["", "", "x", "nightly", "--", "-"][t.draw(6) as usize];
                    let post = ["", "", "7", "--", "-", "; q"][t.draw(6) as usize];
                    let v = format!("{pre}{frag}{post}");
                    if HeaderValue::from_str(&v).is_ok() && !v.trim().is_empty() && v.trim() == v {
                        return (name, v.into_bytes());
                    }
                }
            }
            (name, t.pick(HVALUES).as_bytes().to_vec())
        })
        .collect()
}

pub fn gen_meta(t: &mut Tape, now_ns: u128, len_bias: u32) -> Meta {
    Meta {
        len: gen_len(t, len_bias),
        seed: t.draw(u32::MAX) as u64,
        etag: gen_etag(t),
        mtime_ns: gen_mtime(t, now_ns),
        headers: gen_headers(t),
    }
}

#[derive(Clone, Debug, PartialEq, Eq)]
pub enum Spec {
    FromTo(u64, u64),
    From(u64),
    Suffix(u64),
}

#[derive(Clone, Debug, PartialEq, Eq)]
pub enum Res {
    Sat(Range<u64>),
    Unsat,
    /// RFC 7233 and the pinned implementation disagree (suffix >= length, last < first); no
    /// claimed property decides it, so oracles accept either reading.
    Ambiguous,
}

/// Reference resolution of one spec against length `l` (half-open result).
pub fn resolve(s: &Spec, l: u64) -> Res {
    match *s {
        Spec::FromTo(a, b) => {
            if a > b {
                Res::Ambiguous
            } else if a >= l {
                Res::Unsat
            } else {
                Res::Sat(a..b.min(l - 1) + 1)
            }
        }
        Spec::From(a) => {
            if a >= l {
                Res::Unsat
            } else {
                Res::Sat(a..l)
            }
        }
        Spec::Suffix(n) => {
            if n == 0 {
                Res::Unsat
            } else if n >= l {
                Res::Ambiguous
            } else {
                Res::Sat(l - n..l)
            }
        }
    }
}

pub fn gen_pos(t: &mut Tape, l: u64) -> u64 {
    if t.chance(1, 10) {
        let k = t.draw(1 << 16);
        if let Some(v) = crate::dict::pick_in(k, 0, u64::MAX) {
            return v;
        }
    }
    match t.draw(14) {
        0 => 0,
        1 => 1,
        2 => l.saturating_sub(1),
        3 => l,
        4 => l.saturating_add(1),
        5 => 1 << 32,
        6 => 1 << 63,
        7 => u64::MAX - 1,
        8 => u64::MAX,
        9 => t.draw(20) as u64,
        10 => l / 2,
        _ => {
            if l == 0 {
                0
            } else {
                t.below(l)
            }
        }
    }
}

/// One spec. `tame` keeps it unambiguous and (when the entity is non-empty) satisfiable and small.
pub fn gen_spec(t: &mut Tape, l: u64, tame: bool) -> Spec {
    if tame && l > 0 {
        let small = if t.chance(1, 8) { crate::dict::pick_in(t.draw(1 << 16), 1, 5000).unwrap_or(7) } else { 1 + t.draw(40) as u64 };
        return match t.draw(4) {
            0 => {
                let a = t.below(l);
                Spec::FromTo(a, a.saturating_add(t.draw(40) as u64))
            }
            1 => {
                let a = gen_pos(t, l).min(l - 1);
                Spec::FromTo(a, a.saturating_add(t.draw(3) as u64))
            }
            2 => {
                if l > 1 {
                    Spec::Suffix(small.min(l - 1))
                } else {
                    Spec::FromTo(0, 0)
                }
            }
            _ => Spec::From(l - small.min(l)),
        };
    }
    match t.draw(5) {
        0 | 1 => {
            let a = gen_pos(t, l);
            let b = if t.chance(1, 8) {
                gen_pos(t, l)
            } else {
                a.saturating_add(match t.draw(4) {
                    0 => 0,
                    1 => t.draw(100) as u64,
                    2 => l / 3,
                    _ => u64::MAX,
                })
            };
            Spec::FromTo(a, b)
        }
        2 => Spec::From(gen_pos(t, l)),
        3 => Spec::Suffix(gen_pos(t, l)),
        _ => Spec::Suffix(1 + t.draw(50) as u64),
    }
}

pub fn render_specs(t: &mut Tape, specs: &[Spec]) -> Vec<u8> {
    let mut s = String::from("bytes=");
    for (i, sp) in specs.iter().enumerate() {
        if i > 0 {
            s.push(',');
            s.push_str(["", " ", "\t", "  "][t.draw(4) as usize]);
        }
        match sp {
            Spec::FromTo(a, b) => s.push_str(&format!("{a}-{b}")),
            Spec::From(a) => s.push_str(&format!("{a}-")),
            Spec::Suffix(n) => s.push_str(&format!("-{n}")),
        }
    }
    s.into_bytes()
}

pub fn http_date(secs: u64) -> String {
    httpdate::fmt_http_date(UNIX_EPOCH + Duration::from_secs(secs.min(MAX_SECS)))
}

#[derive(Clone, Debug, Default)]
pub struct ReqPlan {
    pub method: String,
    pub specs: Option<Vec<Spec>>,
    /// (header name, value) in order; may repeat names (duplicated header lines).
    pub headers: Vec<(String, Vec<u8>)>,
    pub has_if_range: bool,
    pub corrupted: bool,
}

impl ReqPlan {
    pub fn build(&self) -> Request<()> {
        let mut b = Request::builder()
            .method(Method::from_bytes(self.method.as_bytes()).expect("valid method token"))
            .uri("/x");
        for (k, v) in &self.headers {
            b = b.header(
                HeaderName::from_bytes(k.as_bytes()).unwrap(),
                HeaderValue::from_bytes(v).expect("generator only emits legal header bytes"),
            );
        }
        b.body(()).unwrap()
    }

    pub fn describe(&self) -> String {
        let mut s = self.method.clone();
        for (k, v) in &self.headers {
            s.push_str(&format!(" | {k}: {}", String::from_utf8_lossy(v).escape_default()));
        }
        s
    }

    pub fn get(&self, name: &str) -> Option<&[u8]> {
        self.headers.iter().find(|h| h.0 == name).map(|h| &h.1[..])
    }
}

fn tag_variants(t: &mut Tape, meta: &Meta) -> Vec<u8> {
    let own = meta.etag.clone().unwrap_or_else(|| b"\"foo\"".to_vec());
    let strip = |e: &[u8]| e.strip_prefix(b"W/").map(|x| x.to_vec()).unwrap_or(e.to_vec());
    match t.draw(9) {
        0 => b"*".to_vec(),
        1 | 2 => own,
        3 => {
            // weak/strong flipped
            if own.starts_with(b"W/") {
                strip(&own)
            } else {
                [b"W/".to_vec(), own].concat()
            }
        }
        4 => b"\"other\"".to_vec(),
        5 => [b"\"nope\", ".to_vec(), own, b",\t\"zzz\"".to_vec()].concat(),
        6 => b"\"a\", W/\"b\",\"c, d\"".to_vec(),
        7 => {
            // case-changed / truncated near miss
            let mut v = own;
            if t.chance(1, 2) {
                v.make_ascii_uppercase();
            } else if v.len() > 1 {
                v.pop();
            }
            v
        }
        _ => b"foo".to_vec(), // not a quoted tag: corrupt list
    }
}

fn date_variants(t: &mut Tape, meta: &Meta, now_ns: u128) -> Vec<u8> {
    let m = (meta.mtime_ns.unwrap_or(now_ns) / NS) as u64;
    match t.draw(8) {
        0 => http_date(m).into_bytes(),
        1 => http_date(m.saturating_sub(1)).into_bytes(),
        2 => http_date(m + 1).into_bytes(),
        3 => http_date(m.saturating_sub(86_400)).into_bytes(),
        4 => http_date(m + 86_400).into_bytes(),
        5 => http_date((now_ns / NS) as u64).into_bytes(),
        6 => b"Sunday, 06-Nov-94 08:49:37 GMT".to_vec(),
        _ => b"yesterday".to_vec(),
    }
}

const HOSTILE_NUMS: &[&str] = &[
    "18446744073709551615",
    "18446744073709551616",
    "99999999999999999999999999",
    "9223372036854775808",
    "18446744073709551614",
    "00000000000000000000001",
    "-1",
    "+5",
    "0x10",
    "",
];

fn sanitize(v: &mut Vec<u8>) {
    for b in v.iter_mut() {
        if (*b < 32 && *b != b'\t') || *b == 127 {
            *b = 0xFF;
        }
    }
}

fn corrupt(t: &mut Tape, v: &mut Vec<u8>) {
    match t.draw(7) {
        0 => {
            if !v.is_empty() {
                let i = t.draw(v.len() as u32) as usize;
                v[i] ^= 1 << t.draw(8);
            }
        }
        1 => {
            let n = t.draw(v.len() as u32 + 1) as usize;
            v.truncate(n);
        }
        2 => {
            let i = t.draw(v.len() as u32 + 1) as usize;
            v.insert(i, [0xFFu8, 0x80, b'"', b',', b'-', b' ', b'\t', b'=', b'*'][t.draw(9) as usize]);
        }
        3 => {
            // replace the first number by a hostile one
            let s = String::from_utf8_lossy(v).to_string();
            if let Some(st) = s.find(|c: char| c.is_ascii_digit()) {
                let en = s[st..]
                    .find(|c: char| !c.is_ascii_digit())
                    .map(|e| st + e)
                    .unwrap_or(s.len());
                *v = format!("{}{}{}", &s[..st], t.pick(HOSTILE_NUMS), &s[en..]).into_bytes();
            }
        }
        4 => {
            let c = v.clone();
            v.extend_from_slice(b", ");
            v.extend_from_slice(&c);
        }
        5 => {
            if !v.is_empty() {
                let i = t.draw(v.len() as u32) as usize;
                v.remove(i);
            }
        }
        _ => {
            let n = 1 + t.draw(12) as usize;
            *v = (0..n).map(|_| 33 + t.draw(223) as u8).collect();
        }
    }
    sanitize(v);
}

pub struct ReqKnobs {
    /// 0 = GET only; 1 = mostly GET, some HEAD; 2 = any method
    pub methods: u32,
    /// 0 = none; 1 = often; 2 = multi-range biased
    pub ranges: u32,
    pub conditionals: bool,
    pub hostile: bool,
}

pub fn gen_request(t: &mut Tape, meta: &Meta, now_ns: u128, k: &ReqKnobs) -> ReqPlan {
    let mut p = ReqPlan::default();
    p.method = match k.methods {
        0 => "GET".to_string(),
        1 => if t.chance(1, 6) { "HEAD" } else { "GET" }.to_string(),
        _ => ["GET", "GET", "HEAD", "POST", "PUT", "OPTIONS", "DELETE", "PATCH", "PROPFIND", "get", "G!", "CONNECT", "TRACE", "head", "GETX", "M-SEARCH", "a.b~c|d^e_f`g#h$i%j&k'l*m+n"]
            [t.draw(17) as usize]
            .to_string(),
    };
    if Method::from_bytes(p.method.as_bytes()).is_err() {
        p.method = "PROPFIND".to_string(); // the http crate is stricter than RFC 7230's tchar
    }
    let l = meta.len;
    let want_range = match k.ranges {
        0 => false,
        1 => t.chance(3, 5),
        _ => true,
    };
    if want_range {
        let n = if k.hostile && t.chance(1, 24) {
            // very long range sets (spilling any inline storage)
            40 + t.draw(260)
        } else if t.chance(1, if k.ranges == 2 { 24 } else { 12 }) {
            // a part count taken from the source dictionary (a cap such as 1 << 8 is hit on purpose)
            crate::dict::pick_in(t.draw(1 << 16), 3, 400).unwrap_or(9) as u32
        } else if k.ranges == 2 {
            2 + t.draw(if crate::core::deep() { 14 } else { 7 })
        } else {
            [1u32, 1, 1, 2, 3, 5][t.draw(6) as usize]
        };
        let tame = k.ranges == 2 && !t.chance(1, 5);
        let mut specs: Vec<Spec> = (0..n).map(|_| gen_spec(t, l, tame)).collect();
        if k.ranges == 2 && t.chance(1, 4) && !specs.is_empty() {
            // duplicated / adjacent / unsatisfiable companions
            let i = t.draw(specs.len() as u32) as usize;
            let extra = match t.draw(3) {
                0 => specs[i].clone(),
                1 => Spec::From(l),
                _ => match specs[i] {
                    Spec::FromTo(_, b) => Spec::FromTo(b.saturating_add(1), b.saturating_add(3)),
                    _ => Spec::FromTo(0, 0),
                },
            };
            let at = if t.chance(1, 2) { i + 1 } else { t.draw(specs.len() as u32 + 1) as usize };
            specs.insert(at, extra);
        }
        p.headers.push(("range".into(), render_specs(t, &specs)));
        p.specs = Some(specs);
    }
    if k.conditionals {
        if t.chance(1, 4) {
            p.headers.push(("if-match".into(), tag_variants(t, meta)));
        }
        if t.chance(1, 4) {
            p.headers.push(("if-none-match".into(), tag_variants(t, meta)));
        }
        if t.chance(1, 4) {
            p.headers.push(("if-modified-since".into(), date_variants(t, meta, now_ns)));
        }
        if t.chance(1, 4) {
            p.headers.push(("if-unmodified-since".into(), date_variants(t, meta, now_ns)));
        }
        if t.chance(1, 4) {
            let v = if t.chance(3, 4) {
                match (&meta.etag, t.draw(4)) {
                    (Some(e), 0 | 1 | 2) => e.clone(),
                    _ => tag_variants(t, meta),
                }
            } else {
                date_variants(t, meta, now_ns)
            };
            p.headers.push(("if-range".into(), v));
        }
    }
    if k.hostile {
        // Request-path corruption: the analogue of message corruption / duplication.
        let n = 1 + t.draw(3);
        for _ in 0..n {
            match t.draw(4) {
                0 if !p.headers.is_empty() => {
                    let i = t.draw(p.headers.len() as u32) as usize;
                    corrupt(t, &mut p.headers[i].1);
                }
                1 if !p.headers.is_empty() => {
                    // duplicated header line (possibly with a different value)
                    let i = t.draw(p.headers.len() as u32) as usize;
                    let mut d = p.headers[i].clone();
                    if t.chance(1, 2) {
                        corrupt(t, &mut d.1);
                    }
                    p.headers.push(d);
                }
                _ => {
                    let name = ["range", "if-range", "if-match", "if-none-match", "if-modified-since", "if-unmodified-since"]
                        [t.draw(6) as usize];
                    let mut v: Vec<u8> = match t.draw(4) {
                        0 => format!("bytes={}-{}", t.pick(HOSTILE_NUMS), t.pick(HOSTILE_NUMS)).into_bytes(),
                        1 => format!("bytes=-{}", t.pick(HOSTILE_NUMS)).into_bytes(),
                        2 => format!("bytes={}-", t.pick(HOSTILE_NUMS)).into_bytes(),
                        _ => b"bytes=0-0,1-1".to_vec(),
                    };
                    if t.chance(1, 2) {
                        corrupt(t, &mut v);
                    }
                    p.headers.push((name.into(), v));
                }
            }
        }
        p.corrupted = true;
        // What the structured part said is no longer reliable.
        p.specs = None;
    }
    p.has_if_range = p.headers.iter().any(|h| h.0 == "if-range");
    p
}
