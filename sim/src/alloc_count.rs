//! Counting global allocator with a per-thread live-byte counter: the "memory" seam used by
//! C11's "what was queued is released". Each run is confined to one worker thread, so the
//! counter is exact and deterministic for single-threaded engines.

use std::alloc::{GlobalAlloc, Layout, System};
use std::cell::Cell;

thread_local! {
    static LIVE: Cell<isize> = const { Cell::new(0) };
}

pub struct Counting;

fn add(n: isize) {
    let _ = LIVE.try_with(|l| l.set(l.get() + n));
}

unsafe impl GlobalAlloc for Counting {
    unsafe fn alloc(&self, l: Layout) -> *mut u8 {
        let p = System.alloc(l);
        if !p.is_null() {
            add(l.size() as isize);
        }
        p
    }
    unsafe fn dealloc(&self, p: *mut u8, l: Layout) {
        System.dealloc(p, l);
        add(-(l.size() as isize));
    }
    unsafe fn alloc_zeroed(&self, l: Layout) -> *mut u8 {
        let p = System.alloc_zeroed(l);
        if !p.is_null() {
            add(l.size() as isize);
        }
        p
    }
    unsafe fn realloc(&self, p: *mut u8, l: Layout, new: usize) -> *mut u8 {
        let q = System.realloc(p, l, new);
        if !q.is_null() {
            add(new as isize - l.size() as isize);
        }
        q
    }
}

pub fn live_bytes() -> isize {
    LIVE.with(|l| l.get())
}
