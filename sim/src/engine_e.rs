//! Engine E — miri-sim (driver side). The scenarios live in the separate crate `/verif/msim`,
//! which is executed by the Miri interpreter (`cargo +nightly miri run`): real std threads run
//! freely and Miri's scheduler pre-empts them at basic-block granularity from a PRNG seeded by
//! `-Zmiri-seed`. One (workload, Miri seed) pair is one exactly repeatable execution. This module
//! runs batches of seeds (`-Zmiri-many-seeds`), parses the runs' own reports, pins a failure down
//! to its lowest failing seed, shrinks the workload and writes / replays the replay file.

use crate::core::{repo_head, verif_dir, write_replay, Stats};
use serde_json::{json, Value};
use std::collections::BTreeSet;
use std::process::Command;
use std::time::Instant;

pub struct MiriPart {
    pub scenario: &'static str,
    /// Number of executions (Miri seeds, summed over workloads) per tier.
    pub quick: u64,
    pub thorough: u64,
    /// Seeds per explicit workload (0 = the workload is drawn from Miri's own seeded entropy,
    /// i.e. every Miri seed is also a different workload).
    pub seeds_per_workload: u64,
    pub what: &'static str,
}

pub fn parts_for(prop: &str) -> Vec<MiriPart> {
    let chunker = |q, t| MiriPart { scenario: "chunker", quick: q, thorough: t, seeds_per_workload: 0, what: "real BodyWriter thread x real consumer thread, free-running under Miri's seeded pre-emptive scheduler (basic-block granularity; deadlock = lost wake-up; data races and UB reported)" };
    let files = |q, t| MiriPart { scenario: "files", quick: q, thorough: t, seeds_per_workload: 16, what: "2-3 threads sharing one ChunkedReadFile (metadata, direct streams, serve()) under Miri's seeded pre-emptive scheduler, real files" };
    match prop {
        "C10" => vec![chunker(48, 2048)],
        "C11" => vec![chunker(32, 1024)],
        "C08" => vec![chunker(16, 512)],
        "C12" => vec![chunker(16, 512)],
        "C20" => vec![chunker(16, 512)],
        "C18" => vec![files(32, 768)],
        "C13" => vec![files(16, 384)],
        "C02" => vec![files(16, 384)],
        _ => vec![],
    }
}

pub struct MiriFound {
    pub prop: String,
    pub oracle: String,
    pub msg: String,
    pub path: String,
}

pub struct MiriReport {
    pub runs: u64,
    pub wall_s: f64,
    pub found: Option<MiriFound>,
    pub skipped: Option<String>,
    pub samples: Vec<String>,
    pub ignored_failures: u64,
}

fn msim_dir() -> String {
    format!("{}/msim", verif_dir())
}

fn scratch_dir() -> String {
    let d = format!("{}/target/scratch", msim_dir());
    let _ = std::fs::create_dir_all(&d);
    d
}

fn base_flags(scenario: &str) -> String {
    match scenario {
        "files" => "-Zmiri-disable-isolation".to_string(),
        _ => String::new(),
    }
}

/// The flags of one execution: a pure function of (scenario, Miri seed), so that a replay file
/// needs nothing but the seed. The pre-emption probability per basic block varies with the seed
/// (1 %, 20 %, 5 %, 20 %): measured on a seeded race (S8-C10), long undisturbed stretches and
/// frequent switches each find interleavings the other does not.
fn exec_flags(scenario: &str, seed: u64) -> String {
    let rate = ["0.01", "0.2", "0.05", "0.2"][(seed % 4) as usize];
    format!("{} -Zmiri-seed={seed} -Zmiri-preemption-rate={rate}", base_flags(scenario)).trim().to_string()
}

struct Out {
    ok: bool,
    text: String,
}

fn run_miri(flags: &str, args: &[String]) -> Result<Out, String> {
    let mut c = Command::new("cargo");
    c.arg("+nightly").arg("miri").arg("run").arg("--offline").arg("--quiet").arg("--manifest-path").arg(format!("{}/Cargo.toml", msim_dir())).arg("--");
    for a in args {
        c.arg(a);
    }
    c.env("MIRIFLAGS", flags).env("CARGO_NET_OFFLINE", "true").env_remove("RUSTFLAGS").env_remove("CARGO_TARGET_DIR");
    let o = c.output().map_err(|e| format!("cannot start cargo miri: {e}"))?;
    let mut text = String::from_utf8_lossy(&o.stdout).to_string();
    text.push_str(&String::from_utf8_lossy(&o.stderr));
    Ok(Out { ok: o.status.success(), text })
}

/// Builds msim for Miri once (so that compile errors are harness errors, not "failing seeds").
fn build() -> Result<Option<String>, String> {
    let v = Command::new("cargo").arg("+nightly").arg("miri").arg("--version").output();
    match v {
        Ok(o) if o.status.success() => {}
        _ => return Ok(Some("cargo +nightly miri is not available in this environment".into())),
    }
    let o = Command::new("cargo")
        .arg("+nightly").arg("miri").arg("run").arg("--offline").arg("--quiet").arg("--manifest-path").arg(format!("{}/Cargo.toml", msim_dir())).arg("--").arg("noop")
        .env("CARGO_NET_OFFLINE", "true").env_remove("RUSTFLAGS").env_remove("CARGO_TARGET_DIR").env("MIRIFLAGS", "")
        .output().map_err(|e| format!("cannot start cargo miri: {e}"))?;
    let text = format!("{}{}", String::from_utf8_lossy(&o.stdout), String::from_utf8_lossy(&o.stderr));
    if text.contains("usage: msim") {
        Ok(None)
    } else {
        Err(format!("building /verif/msim for Miri against /repo failed:\n{}", text.lines().filter(|l| !l.starts_with("warning")).take(60).collect::<Vec<_>>().join("\n")))
    }
}

/// What a single failing execution says about itself.
fn classify(focus: &str, text: &str) -> Option<(String, String, String)> {
    if let Some(l) = text.lines().find(|l| l.contains("ORACLE ")) {
        let s = &l[l.find("ORACLE ").unwrap() + 7..];
        let mut it = s.splitn(3, ' ');
        let p = it.next().unwrap_or(focus).to_string();
        let code = it.next().unwrap_or("oracle").trim_end_matches(':').to_string();
        let msg = it.next().unwrap_or("").to_string();
        return Some((p, code, msg));
    }
    if text.contains("the evaluated program deadlocked") {
        let cfg = text.lines().find(|l| l.starts_with("CONFIG")).unwrap_or("").to_string();
        return match focus {
            "C10" | "C11" => Some((focus.to_string(), "lost-wakeup".into(), format!("Miri: the evaluated program deadlocked - the consumer is parked on its waker and nobody is left to wake it; {cfg}"))),
            "C08" | "C09" => Some((focus.to_string(), "no-clean-end".into(), format!("the writer is gone but the consumer was left parked (Miri: deadlock); {cfg}"))),
            _ => None, // not this property's clause
        };
    }
    if let Some(l) = text.lines().find(|l| l.contains("Undefined Behavior") || l.contains("Data race detected")) {
        let cfg = text.lines().find(|l| l.starts_with("CONFIG")).unwrap_or("").to_string();
        return Some((focus.to_string(), "undefined-behavior".into(), format!("Miri: {}; {cfg}", l.trim())));
    }
    if let Some(i) = text.find("panicked at") {
        let l: String = text[i..].lines().take(2).collect::<Vec<_>>().join(" ");
        return Some((focus.to_string(), "panic".into(), l));
    }
    if let Some(l) = text.lines().find(|l| l.starts_with("error")) {
        return Some((focus.to_string(), "miri-error".into(), l.to_string()));
    }
    None
}

fn single(scenario: &str, focus: &str, seed: u64, wl: &Workload) -> Result<Out, String> {
    let out = run_miri(&exec_flags(scenario, seed), &wl.args(scenario, focus))?;
    // The scenario prints its TAPE line before it touches the code under test. A failed
    // invocation without it never ran (the crate was being rebuilt, cargo or rustc failed, ...):
    // that is a harness error, never a finding.
    if !out.ok && !out.text.lines().any(|l| l.starts_with("TAPE ")) {
        let why: Vec<&str> = out.text.lines().filter(|l| l.starts_with("error")).take(3).collect();
        return Err(format!("the Miri execution for seed {seed} did not start: {}", if why.is_empty() { out.text.lines().last().unwrap_or("no output").to_string() } else { why.join(" | ") }));
    }
    Ok(out)
}

#[derive(Clone, Debug)]
enum Workload {
    /// Drawn inside the program from Miri's seeded entropy.
    FromMiriSeed,
    Seeded(u64),
    Tape(Vec<u32>),
}

impl Workload {
    fn args(&self, scenario: &str, focus: &str) -> Vec<String> {
        let mut a = vec![scenario.to_string(), focus.to_string()];
        if scenario == "files" {
            // through argv: cargo-miri replays build-time environment variables into the program
            a.push("--dir".into());
            a.push(scratch_dir());
        }
        match self {
            Workload::FromMiriSeed => {}
            Workload::Seeded(w) => {
                a.push("--wseed".into());
                a.push(w.to_string());
            }
            Workload::Tape(t) => {
                a.push("--tape".into());
                a.push(t.iter().map(|v| v.to_string()).collect::<Vec<_>>().join(","));
            }
        }
        a
    }
}

fn parse_tape(text: &str) -> Option<Vec<u32>> {
    let l = text.lines().find(|l| l.starts_with("TAPE "))?;
    Some(l[5..].split(',').filter_map(|s| s.trim().parse().ok()).collect())
}

fn absorb(text: &str, stats: &mut Stats, sigs: &mut BTreeSet<u64>, samples: &mut Vec<String>) -> u64 {
    let mut oks = 0;
    for l in text.lines() {
        if l == "OK" {
            oks += 1;
        } else if let Some(h) = l.strip_prefix("SIG ") {
            if let Ok(v) = u64::from_str_radix(h.trim(), 16) {
                sigs.insert(v);
            }
        } else if let Some(rest) = l.strip_prefix("STAT ") {
            for kv in rest.split_whitespace() {
                if let Some((k, v)) = kv.split_once('=') {
                    if let Ok(n) = v.parse::<u64>() {
                        stats.add(leak(format!("e_{k}")), n);
                    }
                }
            }
        } else if l.starts_with("CONFIG ") && samples.len() < 4 {
            samples.push(l[7..].to_string());
        }
    }
    oks
}

fn leak(s: String) -> &'static str {
    use std::collections::BTreeMap;
    use std::sync::Mutex;
    static M: Mutex<BTreeMap<String, &'static str>> = Mutex::new(BTreeMap::new());
    let mut m = M.lock().unwrap();
    if let Some(v) = m.get(&s) {
        return v;
    }
    let l: &'static str = Box::leak(s.clone().into_boxed_str());
    m.insert(s, l);
    l
}

/// Lowest failing seed in [a, b), found by running every seed on its own (16 at a time), so that
/// the reported failure does not depend on how the parallel batch happened to be scheduled.
fn lowest_failing(scenario: &str, focus: &str, a: u64, b: u64, wl: &Workload) -> Result<Option<(u64, Out, (String, String, String))>, String> {
    let mut s = a;
    while s < b {
        let e = (s + 16).min(b);
        let hs: Vec<_> = (s..e)
            .map(|seed| {
                let (sc, fo, w) = (scenario.to_string(), focus.to_string(), wl.clone());
                std::thread::spawn(move || (seed, single(&sc, &fo, seed, &w)))
            })
            .collect();
        let mut res = Vec::new();
        for h in hs {
            let (seed, r) = h.join().map_err(|_| "miri runner thread panicked".to_string())?;
            res.push((seed, r?));
        }
        res.sort_by_key(|r| r.0);
        for (seed, out) in res {
            if !out.ok {
                if let Some(c) = classify(focus, &out.text) {
                    return Ok(Some((seed, out, c)));
                }
            }
        }
        s = e;
    }
    Ok(None)
}

pub fn run(prop: &'static str, part: &MiriPart, thorough: bool, seed: u64, stats: &mut Stats) -> Result<MiriReport, String> {
    let t0 = Instant::now();
    let mut rep = MiriReport { runs: 0, wall_s: 0.0, found: None, skipped: None, samples: Vec::new(), ignored_failures: 0 };
    if std::env::var("VERIF_MIRI").as_deref() == Ok("0") {
        rep.skipped = Some("VERIF_MIRI=0".into());
        return Ok(rep);
    }
    if let Some(why) = build()? {
        rep.skipped = Some(why);
        return Ok(rep);
    }
    let scale: f64 = std::env::var("VERIF_SCALE").ok().and_then(|s| s.parse().ok()).unwrap_or(1.0);
    let total = (((if thorough { part.thorough } else { part.quick }) as f64) * scale).max(16.0) as u64;
    let base = seed.wrapping_mul(1_000_003) % 1_000_000_000;
    let mut sigs = BTreeSet::new();
    // (workload, first seed, last seed) batches
    let mut batches: Vec<(Workload, u64, u64)> = Vec::new();
    if part.seeds_per_workload == 0 {
        let mut s = 0;
        while s < total {
            let e = (s + 64).min(total);
            batches.push((Workload::FromMiriSeed, base + s, base + e));
            s = e;
        }
    } else {
        let n = total.div_ceil(part.seeds_per_workload);
        for w in 0..n {
            batches.push((Workload::Seeded(base + w), base, base + part.seeds_per_workload));
        }
    }
    // Waves of 16 single-seed interpreter processes (measured: 60 % more runs per second than
    // -Zmiri-many-seeds, and every execution's own output is at hand). Within a wave all seeds
    // finish before the lowest failing one is taken, so the report does not depend on timing.
    'outer: for (wl, a, b) in batches {
        {
            // 16 workers pull seeds from one counter; once a seed has failed nobody starts a new
            // one, the executions in flight finish, and the lowest failing seed wins.
            let next = std::sync::Arc::new(std::sync::atomic::AtomicU64::new(a));
            let stop = std::sync::Arc::new(std::sync::atomic::AtomicBool::new(false));
            let results: std::sync::Arc<std::sync::Mutex<Vec<(u64, Result<Out, String>)>>> = Default::default();
            let hs: Vec<_> = (0..16)
                .map(|_| {
                    let (sc, fo, w) = (part.scenario.to_string(), prop.to_string(), wl.clone());
                    let (next, stop, results) = (next.clone(), stop.clone(), results.clone());
                    std::thread::spawn(move || loop {
                        if stop.load(std::sync::atomic::Ordering::SeqCst) {
                            break;
                        }
                        let sd = next.fetch_add(1, std::sync::atomic::Ordering::SeqCst);
                        if sd >= b {
                            break;
                        }
                        let r = single(&sc, &fo, sd, &w);
                        // stop for a failure that is this property's clause (or a harness error)
                        if r.as_ref().map(|o| !o.ok && classify(&fo, &o.text).is_some()).unwrap_or(true) {
                            stop.store(true, std::sync::atomic::Ordering::SeqCst);
                        }
                        results.lock().unwrap().push((sd, r));
                    })
                })
                .collect();
            for h in hs {
                h.join().map_err(|_| "miri runner thread panicked".to_string())?;
            }
            let mut raw = std::mem::take(&mut *results.lock().unwrap());
            raw.sort_by_key(|r| r.0);
            let mut res = Vec::new();
            for (sd, r) in raw {
                res.push((sd, r?));
            }
            let stopped_early = stop.load(std::sync::atomic::Ordering::SeqCst);
            let mut failure: Option<(u64, Out, (String, String, String))> = None;
            for (sd, out) in res {
                if out.ok {
                    absorb(&out.text, stats, &mut sigs, &mut rep.samples);
                    rep.runs += 1;
                    continue;
                }
                match classify(prop, &out.text) {
                    Some(c) => {
                        rep.runs += 1;
                        failure = Some((sd, out, c));
                        break;
                    }
                    None => {
                        // not this property's clause (e.g. a lost wake-up while judging C20)
                        rep.ignored_failures += 1;
                        rep.runs += 1;
                    }
                }
            }
            if let Some((fseed, fout, (p, code, msg))) = failure {
                let tape = parse_tape(&fout.text);
                let (min_tape, min_seed, attempts): (Option<Vec<u32>>, u64, u64) = match &tape {
                    Some(t) => shrink(part.scenario, prop, t.clone(), fseed, (&p, &code), if thorough { 120.0 } else { 45.0 }),
                    None => (None, fseed, 0),
                };
                // Final, authoritative execution of what goes into the replay file; if the
                // minimised form does not fail the same way, the original execution is kept.
                let mut final_wl = match &min_tape { Some(t) => Workload::Tape(t.clone()), None => wl.clone() };
                let mut final_seed = min_seed;
                let mut fin = single(part.scenario, prop, final_seed, &final_wl)?;
                let same = |o: &Out| !o.ok && classify(prop, &o.text).map(|c| c.0 == p && c.1 == code).unwrap_or(false);
                if !same(&fin) {
                    final_wl = wl.clone();
                    final_seed = fseed;
                    fin = fout;
                }
                let min_seed = final_seed;
                let min_tape: Vec<u32> = match &final_wl { Workload::Tape(t) => t.clone(), _ => Vec::new() };
                let (p2, code2, msg2) = classify(prop, &fin.text).unwrap_or((p.clone(), code.clone(), msg.clone()));
                let trace: Vec<String> = fin.text.lines().filter(|l| l.starts_with("CONFIG") || l.starts_with("TAPE") || l.contains("ORACLE") || l.contains("deadlock") || l.contains("Undefined Behavior") || l.contains("Data race") || l.contains("panicked at")).map(|l| l.to_string()).take(40).collect();
                let rj = json!({
                    "property": p2, "oracle": code2, "message": msg2, "engine": "miri-sim", "focus": prop, "scenario": part.scenario,
                    "deep": thorough, "seed": seed, "miri_seed": min_seed, "miri_flags": exec_flags(part.scenario, min_seed),
                    "args": final_wl.args(part.scenario, prop), "tape": min_tape, "tape_original_len": tape.as_ref().map(|t| t.len()).unwrap_or(0),
                    "original": {"miri_seed": fseed, "args": wl.args(part.scenario, prop)},
                    "shrink_attempts": attempts, "trace": trace, "repo_head": repo_head(),
                    "how_to_replay": "./check replay <this file>  (runs: MIRIFLAGS='<miri_flags>' cargo +nightly miri run --manifest-path /verif/msim/Cargo.toml -- <args>)",
                });
                let path = write_replay(&rj, prop, seed, fseed);
                rep.found = Some(MiriFound { prop: p2, oracle: code2, msg: msg2, path });
                break 'outer;
            }
            let _ = (stopped_early, a);
            if t0.elapsed().as_secs_f64() > if thorough { 3600.0 } else { 240.0 } {
                break 'outer; // wall-clock cap; the evidence reports the runs actually made
            }
        }
    }
    stats.sigs.extend(sigs.iter().copied());
    stats.add("e_miri_executions", rep.runs);
    stats.add("e_miri_distinct_signatures", sigs.len() as u64);
    stats.add("e_miri_failures_not_this_property", rep.ignored_failures);
    stats.nontrivial_runs += rep.runs;
    rep.wall_s = t0.elapsed().as_secs_f64();
    Ok(rep)
}

/// Workload minimisation: shorter / zeroed tapes, each tried under a window of Miri seeds (the
/// schedule itself cannot be shrunk - it is whatever Miri's PRNG does for that seed).
fn shrink(scenario: &str, focus: &str, tape: Vec<u32>, seed: u64, target: (&str, &str), budget_s: f64) -> (Option<Vec<u32>>, u64, u64) {
    let t0 = Instant::now();
    let mut best = tape;
    let mut best_seed = seed;
    let mut attempts = 0u64;
    let try_one = |cand: &Vec<u32>, attempts: &mut u64| -> Option<u64> {
        *attempts += 1;
        let wl = Workload::Tape(cand.clone());
        let lo = seed.saturating_sub(8);
        match lowest_failing(scenario, focus, lo, lo + 32, &wl) {
            Ok(Some((s, _, (p, c, _)))) if p == target.0 && c == target.1 => Some(s),
            _ => None,
        }
    };
    // First make sure the explicit tape reproduces at all.
    match try_one(&best, &mut attempts) {
        Some(s) => best_seed = s,
        None => return (None, seed, attempts),
    }
    // 1. truncate (an exhausted tape draws zeros)
    let mut cut = best.len() / 2;
    while cut >= 1 && t0.elapsed().as_secs_f64() < budget_s {
        if best.len() > cut {
            let cand: Vec<u32> = best[..best.len() - cut].to_vec();
            if let Some(s) = try_one(&cand, &mut attempts) {
                best = cand;
                best_seed = s;
                continue;
            }
        }
        cut /= 2;
    }
    // 2. zero single values, from the end
    let mut i = best.len();
    while i > 0 && t0.elapsed().as_secs_f64() < budget_s {
        i -= 1;
        if best[i] == 0 {
            continue;
        }
        let mut cand = best.clone();
        cand[i] = 0;
        if let Some(s) = try_one(&cand, &mut attempts) {
            best = cand;
            best_seed = s;
        }
    }
    while best.last() == Some(&0) {
        best.pop();
    }
    (Some(best), best_seed, attempts)
}

pub fn replay(v: &Value, path: &str) -> i32 {
    let focus = v["focus"].as_str().unwrap_or("C10").to_string();
    let scenario = v["scenario"].as_str().unwrap_or("chunker").to_string();
    let seed = v["miri_seed"].as_u64().unwrap_or(0);
    let args: Vec<String> = v["args"].as_array().map(|a| a.iter().filter_map(|x| x.as_str().map(|s| s.to_string())).collect()).unwrap_or_else(|| vec![scenario.clone(), focus.clone()]);
    match build() {
        Ok(None) => {}
        Ok(Some(why)) => {
            eprintln!("HARNESS-ERROR: {why}");
            return 2;
        }
        Err(e) => {
            eprintln!("HARNESS-ERROR: {e}");
            return 2;
        }
    }
    let out = match run_miri(&exec_flags(&scenario, seed), &args) {
        Ok(o) => o,
        Err(e) => {
            eprintln!("HARNESS-ERROR: {e}");
            return 2;
        }
    };
    for l in out.text.lines().filter(|l| l.starts_with("CONFIG") || l.starts_with("TAPE") || l.contains("ORACLE") || l.contains("deadlock") || l.contains("Undefined Behavior") || l.contains("Data race") || l.contains("panicked at") || l.starts_with("SIG")) {
        println!("  {l}");
    }
    match classify(&focus, &out.text) {
        Some((p, code, msg)) if !out.ok => {
            println!("violation: [{p} / {code}] {msg}");
            println!("reproduced: oracle {}", if v["oracle"].as_str() == Some(code.as_str()) { "identical" } else { "DIFFERENT from the recorded one" });
            println!("VIOLATION property={focus} replay={path}");
            1
        }
        _ => {
            println!("not reproduced: the run holds on the current tree");
            0
        }
    }
}
