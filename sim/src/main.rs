//! Deterministic simulation with fault injection for http-serve. See /verif/DESIGN.md.
//!
//! sim check <PROP> [--tier quick|thorough] [--seed N] [--workers N] [--runs N]
//! sim replay <file>
//! sim selftest determinism [--runs N]
//! sim list
#![allow(dead_code)]

mod a_drain;
mod a_req;
mod a_world;
mod alloc_count;
mod checks;
mod core;
mod dict;
mod engine_a;
mod engine_b;
mod engine_c;
mod engine_d;
mod engine_e;
mod engine_f;
mod sched;
mod sysseam;
mod inflate;
mod mpart;
mod simdata;
mod tape;

use crate::core::*;

#[global_allocator]
static ALLOC: alloc_count::Counting = alloc_count::Counting;
use serde_json::{json, Value};
use std::time::Instant;

fn arg_val(args: &[String], name: &str) -> Option<String> {
    args.iter().position(|a| a == name).and_then(|i| args.get(i + 1).cloned())
}

fn main() {
    install_panic_hook();
    let args: Vec<String> = std::env::args().skip(1).collect();
    let code = match args.first().map(|s| s.as_str()) {
        Some("check") => cmd_check(&args[1..]),
        Some("replay") => cmd_replay(&args[1..]),
        Some("selftest") => cmd_selftest(&args[1..]),
        Some("list") => {
            for c in checks::all() {
                println!("{} {}", c.prop, c.parts.iter().map(|p| p.engine.name).collect::<Vec<_>>().join("+"));
            }
            0
        }
        _ => {
            eprintln!("usage: sim check <PROP> [--tier quick|thorough] [--seed N] | replay <file> | selftest determinism | list");
            2
        }
    };
    engine_d::cleanup_scratch();
    std::process::exit(code);
}

fn env_seed(args: &[String]) -> u64 {
    arg_val(args, "--seed")
        .or_else(|| std::env::var("VERIF_SEED").ok())
        .and_then(|s| s.trim().parse::<u64>().ok())
        .unwrap_or(1)
}

fn env_tier(args: &[String]) -> bool {
    let t = arg_val(args, "--tier").or_else(|| std::env::var("VERIF_TIER").ok()).unwrap_or_else(|| "quick".into());
    t == "thorough"
}

fn workers(args: &[String]) -> usize {
    arg_val(args, "--workers")
        .or_else(|| std::env::var("VERIF_WORKERS").ok())
        .and_then(|s| s.parse().ok())
        .unwrap_or_else(|| std::thread::available_parallelism().map(|n| n.get()).unwrap_or(4))
}

fn cmd_check(args: &[String]) -> i32 {
    let Some(prop) = args.first() else {
        eprintln!("check: which property?");
        return 2;
    };
    let Some(check) = checks::all().into_iter().find(|c| c.prop == prop) else {
        eprintln!("check: no check for {prop} (not applicable or unknown)");
        return 2;
    };
    let thorough = env_tier(args);
    DEEP.store(thorough, std::sync::atomic::Ordering::Relaxed);
    let seed = env_seed(args);
    let nworkers = workers(args);
    let runs_override = arg_val(args, "--runs").and_then(|s| s.parse().ok());
    println!("VERIF_SEED={seed} tier={} property={} workers={nworkers} repo={}", if thorough { "thorough" } else { "quick" }, check.prop, repo_head());
    let t0 = Instant::now();
    let mut parts_json = Vec::new();
    let mut total = Stats::default();
    let mut total_runs = 0u64;
    let mut hash_xor = 0u64;
    let mut violation: Option<(Found, String)> = None;
    let mut known_hits: Vec<String> = Vec::new();
    let only_engine = std::env::var("VERIF_ONLY_ENGINE").ok();
    for (pi, part) in check.parts.iter().enumerate() {
        if let Some(o) = &only_engine {
            // Self-test aid: run a single engine's parts (the evidence then says so).
            if part.engine.name != o {
                continue;
            }
        }
        let mut rep = match run_part(&check, pi, thorough, seed, nworkers, runs_override) {
            Ok(r) => r,
            Err(e) => {
                eprintln!("HARNESS-ERROR: {e}");
                return 2;
            }
        };
        println!(
            "part {} engine={} mode={} runs={} wall={:.1}s nontrivial_distinct={} ({})",
            pi, part.engine.name, part.mode, rep.runs, rep.wall_s, rep.stats.sigs.len(), part.what
        );
        parts_json.push(json!({
            "engine": part.engine.name, "what": part.what, "runs": rep.runs, "wall_s": rep.wall_s,
            "nontrivial_runs": rep.stats.nontrivial_runs, "distinct_nontrivial": rep.stats.sigs.len(),
            "event_hash_xor": format!("{:016x}", rep.hash_xor),
        }));
        total_runs += rep.runs;
        hash_xor ^= rep.hash_xor.rotate_left(pi as u32 * 7);
        let found = rep.found.take();
        total.merge_pub(rep.stats);
        if let Some(f) = found {
            // Minimise, write the replay file, verify it replays.
            let budget = if thorough { 30.0 } else { 8.0 };
            let target = (f.violation.prop, f.violation.oracle);
            let orig_len = f.tape.len();
            let (min, attempts) = shrink(part.engine, check.prop, part.mode, f.tape.clone(), target, budget);
            let rr = replay_tape(part.engine, check.prop, part.mode, min.clone(), true);
            let (v, trace, hash) = match rr {
                Ok(rr) => match rr.outcome {
                    Err(v) => (v, rr.trace.unwrap_or_default(), rr.hash),
                    Ok(_) => (f.violation.clone(), vec!["(minimised tape did not replay; original tape kept)".into()], 0),
                },
                Err(e) => {
                    eprintln!("HARNESS-ERROR: {e}");
                    return 2;
                }
            };
            let tape_out = if hash == 0 { f.tape.clone() } else { min };
            let rj = json!({
                "property": v.prop, "oracle": v.oracle, "message": v.msg, "engine": part.engine.name, "mode": part.mode,
                "focus": check.prop, "deep": thorough, "seed": seed, "part": pi, "run": f.run, "tape": tape_out, "tape_original_len": orig_len,
                "shrink_attempts": attempts, "event_hash": format!("{hash:016x}"), "trace": trace, "repo_head": repo_head(),
            });
            let path = write_replay(&rj, check.prop, seed, f.run);
            violation = Some((f, path));
            break;
        }
    }
    // Engine E (miri-sim): first pass only (it builds http-serve itself, under Miri).
    let mut miri_violation: Option<engine_e::MiriFound> = None;
    let mut miri_notes: Vec<String> = Vec::new();
    if violation.is_none() && std::env::var("VERIF_EVIDENCE_SUFFIX").is_err() && runs_override.is_none() {
        for mp in engine_e::parts_for(check.prop) {
            let rep = match engine_e::run(check.prop, &mp, thorough, seed, &mut total) {
                Ok(r) => r,
                Err(e) => {
                    eprintln!("HARNESS-ERROR: {e}");
                    return 2;
                }
            };
            if let Some(why) = &rep.skipped {
                println!("WARNING: miri-sim part skipped: {why}");
                miri_notes.push(format!("miri-sim part ({}) skipped in this run: {why}", mp.scenario));
                continue;
            }
            println!("part miri engine=miri-sim scenario={} runs={} wall={:.1}s ({})", mp.scenario, rep.runs, rep.wall_s, mp.what);
            parts_json.push(json!({
                "engine": "miri-sim", "what": mp.what, "scenario": mp.scenario, "runs": rep.runs, "wall_s": rep.wall_s,
                "runs_per_hour": if rep.wall_s > 0.0 { (rep.runs as f64 / rep.wall_s * 3600.0) as u64 } else { 0 },
                "sample_workloads": rep.samples, "failures_that_are_not_this_propertys_clause": rep.ignored_failures,
            }));
            total_runs += rep.runs;
            if let Some(f) = rep.found {
                miri_violation = Some(f);
                break;
            }
        }
    }
    let wall = t0.elapsed().as_secs_f64();
    for (id, n) in &total.known_hits {
        let known = KNOWN.get_or_init(|| std::sync::Arc::new(load_known())).clone();
        if let Some(k) = known.iter().find(|k| &k.id == id) {
            let line = format!("KNOWN-FINDING: property={} {} [{} hits in this run; {}]", k.property, k.what, n, k.id);
            println!("{line}");
            known_hits.push(line);
        }
    }
    let nviol = (violation.is_some() || miri_violation.is_some()) as i64;
    let counters: serde_json::Map<String, Value> = total.counters.iter().map(|(k, v)| (k.to_string(), json!(v))).collect();
    let faults: serde_json::Map<String, Value> = total.counters.iter().filter(|(k, _)| k.starts_with("fault_")).map(|(k, v)| (k.to_string(), json!(v))).collect();
    let zero_probes: Vec<&str> = checks::probes(check.prop).into_iter().filter(|p| total.counters.get(p).copied().unwrap_or(0) == 0).collect();
    for p in &zero_probes {
        println!("WARNING: reach probe {p} stayed at zero in this run");
    }
    let mut assumptions: Vec<String> = check.assumptions.iter().map(|s| s.to_string()).collect();
    if matches!(check.prop, "C10" | "C11" | "C12" | "C20") {
        // thread-sim's scheduling points are the chunker's mutex and the wakers. Shared state that
        // bypasses the mutex is interleaved only at those points; say so when the source has any.
        let mut hits = Vec::new();
        for f in ["chunker.rs", "gzip.rs", "body.rs"] {
            if let Ok(t) = std::fs::read_to_string(format!("/repo/src/{f}")) {
                let code = t.split("#[cfg(test)]").next().unwrap_or("").to_string();
                for pat in ["Atomic", "static mut", "UnsafeCell", "thread_local!"] {
                    if code.contains(pat) {
                        hits.push(format!("{f}: {pat}"));
                    }
                }
            }
        }
        if hits.is_empty() {
            assumptions.push("source scan: no atomics / thread-locals / UnsafeCell in chunker.rs, gzip.rs, body.rs - all producer/consumer shared state is under the instrumented mutex".into());
        } else {
            println!("WARNING: shared state outside the instrumented mutex: {hits:?} (interleaved only at lock and wake points)");
            assumptions.push(format!("source scan found shared state outside the instrumented mutex: {hits:?}; it is interleaved only at lock/wake scheduling points"));
        }
    }
    assumptions.extend(miri_notes);
    assumptions.extend(checks::common_assumptions());
    let samples: Vec<Value> = total.samples.iter().map(|s| s.1.clone()).collect();
    let ev = json!({
        "property_id": check.prop,
        "tier": if thorough { "thorough" } else { "quick" },
        "seed": seed,
        "level": check.level,
        "coverage": {
            "evaluations": total_runs,
            "distinct_nontrivial": total.sigs.len(),
            "rule": check.rule,
            "samples": if samples.is_empty() { vec![json!("no sample recorded")] } else { samples },
            "nontrivial_runs": total.nontrivial_runs,
            "runs_per_hour": if wall > 0.0 { (total_runs as f64 / wall * 3600.0) as u64 } else { 0 },
            "simulated_time_covered_s": (total.sim_time_ns / 1_000_000_000) as u64,
            "tape_draws_total": total.tape_len_total,
            "faults_fired": faults,
            "counters_and_reach_probes": counters,
            "reach_probes_at_zero": zero_probes,
            "grid_cells_hit": total.grid.len(),
            "grid_cells": total.grid.iter().take(400).collect::<Vec<_>>(),
            "parts": parts_json,
            "event_hash_xor": format!("{hash_xor:016x}"),
            "components_real": checks::components_real(check.prop),
            "components_stubbed": checks::components_stub(check.prop),
            "known_findings_reproduced": known_hits,
            "determinism_selftest_last_result": std::fs::read_to_string(format!("{}/selftest/determinism.json", verif_dir())).ok().and_then(|s| serde_json::from_str::<Value>(&s).ok()).unwrap_or(Value::Null),
            "sensitivity_selftest_last_result": std::fs::read_to_string(format!("{}/mutants/RESULTS.txt", verif_dir())).ok().map(|s| { let n = s.lines().count(); let bad = s.lines().filter(|l| l.contains("UNEXPECTED")).count(); json!({"catalogue_lines": n, "unexpected": bad, "lines_for_this_property": s.lines().filter(|l| l.contains(&format!(" {} exit=", check.prop))).collect::<Vec<_>>()}) }).unwrap_or(Value::Null),
            "exhaustive": false,
            "source_dictionary": { "what": "integer literals mined from /repo/src (each with +-1), mixed into generated lengths, positions, chunk/write/file sizes", "size": dict::dict().len(), "values_sample": dict::dict().iter().take(60).collect::<Vec<_>>() },
            "build_profile": std::env::var("VERIF_PROFILE_NAME").unwrap_or_else(|_| "release (debug-assertions and overflow-checks ON in http-serve)".into()),
        },
        "assumptions": assumptions,
        "wall_s": wall,
        "violations": nviol,
        "repo_head": repo_head(),
    });
    if let Err(e) = write_evidence(check.prop, &ev) {
        eprintln!("HARNESS-ERROR: cannot write evidence: {e}");
        return 2;
    }
    if let Some(f) = miri_violation {
        println!("violation: [{} / {}] {}", f.prop, f.oracle, f.msg);
        println!("VIOLATION property={} replay={}", check.prop, f.path);
        return 1;
    }
    match violation {
        Some((f, path)) => {
            println!("violation: [{} / {}] {}", f.violation.prop, f.violation.oracle, f.violation.msg);
            println!("VIOLATION property={} replay={}", check.prop, path);
            1
        }
        None => {
            println!("OK property={} runs={} distinct_nontrivial={} wall={:.1}s", check.prop, total_runs, total.sigs.len(), wall);
            0
        }
    }
}

fn cmd_replay(args: &[String]) -> i32 {
    let Some(path) = args.first() else {
        eprintln!("replay: which file?");
        return 2;
    };
    let Ok(s) = std::fs::read_to_string(path) else {
        eprintln!("replay: cannot read {path}");
        return 2;
    };
    let Ok(v) = serde_json::from_str::<Value>(&s) else {
        eprintln!("replay: {path} is not JSON");
        return 2;
    };
    let focus = v["focus"].as_str().or(v["property"].as_str()).unwrap_or("");
    let Some(check) = checks::all().into_iter().find(|c| c.prop == focus) else {
        eprintln!("replay: unknown property {focus}");
        return 2;
    };
    let ename = v["engine"].as_str().unwrap_or("");
    if ename == "miri-sim" {
        return engine_e::replay(&v, path);
    }
    let mode = v["mode"].as_u64().unwrap_or(0) as u32;
    let Some(part) = check.parts.iter().find(|p| p.engine.name == ename && p.mode == mode) else {
        eprintln!("replay: engine {ename} mode {mode} is not part of {focus}");
        return 2;
    };
    DEEP.store(v["deep"].as_bool().unwrap_or(false), std::sync::atomic::Ordering::Relaxed);
    // Replays show known findings as the violations they are.
    let _ = KNOWN.set(std::sync::Arc::new(Vec::new()));
    // A replayed run may hang inside the code under test (that is what a "hang" replay is):
    // run it on a helper thread and give up after the watchdog limit.
    let hang_ms: u64 = std::env::var("VERIF_HANG_MS").ok().and_then(|v| v.parse().ok()).unwrap_or(20_000);
    let (tx, rx) = std::sync::mpsc::channel();
    let engine = part.engine;
    let prop = check.prop;
    let v2 = v.clone();
    std::thread::spawn(move || {
        let _ = tx.send(replay_inner(engine, prop, mode, &v2));
    });
    let rr = match rx.recv_timeout(std::time::Duration::from_millis(hang_ms)) {
        Ok(r) => r,
        Err(_) => {
            println!("violation: [{} / hang] the replayed run did not finish within {hang_ms} ms", check.prop);
            println!("reproduced: oracle {}", if v["oracle"].as_str() == Some("hang") { "identical" } else { "DIFFERENT from the recorded one" });
            println!("VIOLATION property={} replay={}", check.prop, path);
            return 1;
        }
    };
    finish_replay(rr, &v, check.prop, path)
}

fn replay_inner(engine: Engine, prop: &'static str, mode: u32, v: &Value) -> Result<RunResult, String> {
    let mut scratch = Stats::default();
    let part = PartRef { engine };
    let check = CheckRef { prop };
    let rr = if let Some(t) = v["tape"].as_array() {
        let tape: Vec<u32> = t.iter().map(|x| x.as_u64().unwrap_or(0) as u32).collect();
        replay_tape(part.engine, check.prop, mode, tape, true)
    } else {
        // Seed-mode replay (written by the watchdog before the run could finish).
        let seed = v["seed"].as_u64().unwrap_or(0);
        let run = v["run"].as_u64().unwrap_or(0);
        exec(part.engine, check.prop, mode, crate::tape::Tape::search(seed, run), run, &mut scratch, true)
    };
    rr
}

struct PartRef {
    engine: Engine,
}
struct CheckRef {
    prop: &'static str,
}

fn finish_replay(rr: Result<RunResult, String>, v: &Value, prop: &'static str, path: &str) -> i32 {
    let check = CheckRef { prop };
    match rr {
        Err(e) => {
            eprintln!("HARNESS-ERROR: {e}");
            2
        }
        Ok(rr) => {
            for l in rr.trace.unwrap_or_default() {
                println!("  {l}");
            }
            println!("event_hash={:016x} (recorded {})", rr.hash, v["event_hash"].as_str().unwrap_or("-"));
            match rr.outcome {
                Err(viol) => {
                    println!("violation: [{} / {}] {}", viol.prop, viol.oracle, viol.msg);
                    let same = v["oracle"].as_str() == Some(viol.oracle);
                    println!("reproduced: oracle {}", if same { "identical" } else { "DIFFERENT from the recorded one" });
                    println!("VIOLATION property={} replay={}", check.prop, path);
                    1
                }
                Ok(_) => {
                    println!("not reproduced: the run holds on the current tree");
                    0
                }
            }
        }
    }
}

/// Determinism self-test: per-run event hashes of every check's parts, printed so that two
/// processes (and two worker counts) can be diffed.
fn cmd_selftest(args: &[String]) -> i32 {
    match args.first().map(|s| s.as_str()) {
        Some("determinism") => {
            let runs: u64 = arg_val(args, "--runs").and_then(|s| s.parse().ok()).unwrap_or(2000);
            let seed = env_seed(args);
            let nworkers = workers(args);
            let only = arg_val(args, "--prop");
            for c in checks::all() {
                if let Some(o) = &only {
                    if !o.split(',').any(|x| x == c.prop) {
                        continue;
                    }
                }
                for pi in 0..c.parts.len() {
                    match run_part(&c, pi, false, seed, nworkers, Some(runs.min(c.parts[pi].runs_quick))) {
                        Ok(r) => println!(
                            "{} part{} {} runs={} hash={:016x} distinct={} violation={}",
                            c.prop, pi, c.parts[pi].engine.name, r.runs, r.hash_xor, r.stats.sigs.len(),
                            r.found.map(|f| format!("{}@{}", f.violation.oracle, f.run)).unwrap_or("-".into())
                        ),
                        Err(e) => {
                            eprintln!("HARNESS-ERROR: {e}");
                            return 2;
                        }
                    }
                }
            }
            0
        }
        _ => {
            eprintln!("selftest: determinism");
            2
        }
    }
}
