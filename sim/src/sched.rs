//! Baton scheduler: real OS threads, parked and released one at a time at intercepted
//! synchronisation points. Who runs next is a tape draw, so one tape is one interleaving.

use crate::tape::{hash_str, mix, Tape};
use std::cell::Cell;
use std::collections::BTreeSet;
use std::sync::{Arc, Condvar, Mutex};
use std::time::Duration;

#[derive(Clone, Copy, Debug, PartialEq, Eq)]
pub enum Status {
    NotStarted,
    Runnable,
    BlockedMutex(usize),
    /// Waiting for a wake on the waker with this generation.
    Parked(u64),
    /// Waiting until the consumer has received this many bytes (or has terminated).
    WaitDelivered(u64),
    Finished,
}

#[derive(Clone, Copy, Debug, PartialEq, Eq)]
pub enum Strategy {
    Random,
    Sticky(u32),
    Pct(u32),
}

pub struct St {
    pub tape: Option<Tape>,
    cur: Option<usize>,
    pub status: Vec<Status>,
    strategy: Strategy,
    pub aborted: bool,
    pub deadlock: Option<String>,
    pub hash: u64,
    pub sig: u64,
    pub trace: Option<Vec<String>>,
    mutexes: Vec<usize>,
    pub woken: BTreeSet<u64>,
    pub wakes_total: u64,
    pub wakes_while_parked: u64,
    pub wakes_stale: u64,
    pub switches: u64,
    pub steps: u64,
    pub contended: u64,
    pub delivered: u64,
    pub consumer_done: bool,
    pub producer_done: bool,
    pub seq: u64,
    prio: Vec<u32>,
    change_points: Vec<u64>,
    pub panics: Vec<String>,
}

pub struct Sched {
    pub m: Mutex<St>,
    cv: Condvar,
}

thread_local! {
    pub static TID: Cell<usize> = const { Cell::new(usize::MAX) };
}

pub const NAMES: [&str; 2] = ["producer", "consumer"];

impl Sched {
    pub fn new(mut tape: Tape, nthreads: usize, trace: bool) -> Arc<Sched> {
        let strategy = match tape.draw(6) {
            0 | 1 => Strategy::Random,
            2 => Strategy::Sticky(1),
            3 => Strategy::Sticky(3),
            k => Strategy::Pct(k - 3 + tape.draw(2)),
        };
        let mut prio: Vec<u32> = (0..nthreads as u32).collect();
        let mut change_points = Vec::new();
        if let Strategy::Pct(d) = strategy {
            if tape.chance(1, 2) {
                prio.reverse();
            }
            for _ in 0..d {
                change_points.push(tape.draw(80) as u64);
            }
        }
        Arc::new(Sched {
            m: Mutex::new(St {
                tape: Some(tape),
                cur: None,
                status: vec![Status::NotStarted; nthreads],
                strategy,
                aborted: false,
                deadlock: None,
                hash: 0x5C4ED,
                sig: 0x5C4ED,
                trace: if trace { Some(Vec::new()) } else { None },
                mutexes: Vec::new(),
                woken: BTreeSet::new(),
                wakes_total: 0,
                wakes_while_parked: 0,
                wakes_stale: 0,
                switches: 0,
                steps: 0,
                contended: 0,
                delivered: 0,
                consumer_done: false,
                producer_done: false,
                seq: 0,
                prio,
                change_points,
                panics: Vec::new(),
            }),
            cv: Condvar::new(),
        })
    }

    fn tid() -> usize {
        TID.with(|t| t.get())
    }

    fn mutex_ord(st: &mut St, addr: usize) -> usize {
        match st.mutexes.iter().position(|&a| a == addr) {
            Some(i) => i,
            None => {
                st.mutexes.push(addr);
                st.mutexes.len() - 1
            }
        }
    }

    fn event(st: &mut St, tid: usize, tag: &'static str, a: u64) {
        st.seq += 1;
        st.hash = mix(mix(mix(st.hash, tid as u64), hash_str(tag)), a);
        // The interleaving signature: who did which kind of thing, in order.
        st.sig = mix(mix(st.sig, tid as u64), hash_str(tag));
        if let Some(t) = &mut st.trace {
            t.push(format!("#{} {}: {} {}", st.seq, NAMES.get(tid).unwrap_or(&"?"), tag, a));
        }
    }

    /// Records a harness-level event from the running thread.
    pub fn note(&self, tag: &'static str, a: u64) -> u64 {
        let mut st = self.m.lock().unwrap();
        let tid = Self::tid();
        Self::event(&mut st, tid, tag, a);
        st.seq
    }

    fn runnable(st: &St) -> Vec<usize> {
        (0..st.status.len()).filter(|&i| st.status[i] == Status::Runnable).collect()
    }

    /// Picks the next thread among the runnable ones. Value 0 of the draw always means "keep
    /// running the current thread" when that is possible.
    fn pick(st: &mut St, me: usize) -> Option<usize> {
        let mut r = Self::runnable(st);
        if r.is_empty() {
            return None;
        }
        st.steps += 1;
        if let Some(p) = r.iter().position(|&t| t == me) {
            r.swap(0, p);
        }
        if r.len() == 1 {
            return Some(r[0]);
        }
        let tape = st.tape.as_mut().expect("tape lent to the scheduler");
        let choice = match st.strategy {
            Strategy::Random => r[tape.draw(r.len() as u32) as usize],
            Strategy::Sticky(p) => {
                if r[0] == me && !tape.chance(p, 10) {
                    me
                } else {
                    r[tape.draw(r.len() as u32) as usize]
                }
            }
            Strategy::Pct(_) => {
                let steps = st.steps;
                if st.change_points.contains(&steps) && r[0] == me {
                    // The running thread drops to the lowest priority.
                    let low = st.prio.iter().copied().min().unwrap_or(0);
                    st.prio[me] = low.saturating_sub(1);
                    for p in st.prio.iter_mut() {
                        *p += 1;
                    }
                }
                *r.iter().max_by_key(|&&t| st.prio[t]).unwrap()
            }
        };
        if choice != me {
            st.switches += 1;
        }
        Some(choice)
    }

    fn wait_for_baton<'a>(&'a self, mut st: std::sync::MutexGuard<'a, St>, me: usize) -> std::sync::MutexGuard<'a, St> {
        while st.cur != Some(me) && !st.aborted {
            st = self.cv.wait(st).unwrap();
        }
        st
    }

    fn hand_over(&self, st: &mut St, me: usize, why: &str) {
        match Self::pick(st, me) {
            Some(n) => {
                st.cur = Some(n);
            }
            None => {
                if st.status.iter().all(|s| *s == Status::Finished) {
                    st.cur = None;
                } else {
                    st.deadlock = Some(format!(
                        "no simulated thread can run ({why}): {}",
                        st.status.iter().enumerate().map(|(i, s)| format!("{}={:?}", NAMES.get(i).unwrap_or(&"?"), s)).collect::<Vec<_>>().join(", ")
                    ));
                    st.aborted = true;
                    st.cur = None;
                }
            }
        }
        self.cv.notify_all();
    }

    /// Scheduling point of a runnable thread.
    pub fn yield_point(&self, tag: &'static str, a: u64) {
        let me = Self::tid();
        if me == usize::MAX {
            return;
        }
        let mut st = self.m.lock().unwrap();
        if st.aborted {
            return;
        }
        Self::event(&mut st, me, tag, a);
        self.hand_over(&mut st, me, tag);
        let _st = self.wait_for_baton(st, me);
    }

    /// The calling thread cannot continue until `status` is resolved by another thread.
    /// Returns false if the run was aborted meanwhile.
    pub fn block(&self, status: Status, tag: &'static str, a: u64) -> bool {
        let me = Self::tid();
        let mut st = self.m.lock().unwrap();
        if st.aborted {
            return false;
        }
        Self::event(&mut st, me, tag, a);
        // Conditions that are already satisfied do not block.
        let ready = match status {
            Status::Parked(g) => st.woken.contains(&g),
            Status::WaitDelivered(n) => st.delivered >= n || st.consumer_done,
            _ => false,
        };
        if !ready {
            st.status[me] = status;
        }
        self.hand_over(&mut st, me, tag);
        let st = self.wait_for_baton(st, me);
        !st.aborted
    }

    pub fn start_thread(&self, tid: usize) {
        TID.with(|t| t.set(tid));
        let mut st = self.m.lock().unwrap();
        st.status[tid] = Status::Runnable;
        self.cv.notify_all();
        let _st = self.wait_for_baton(st, tid);
    }

    pub fn finish_thread(&self, panic: Option<String>) {
        let me = Self::tid();
        let mut st = self.m.lock().unwrap();
        if let Some(p) = panic {
            st.panics.push(format!("{}: {p}", NAMES.get(me).unwrap_or(&"?")));
        }
        st.status[me] = Status::Finished;
        if me == 0 {
            st.producer_done = true;
        } else {
            st.consumer_done = true;
        }
        Self::event(&mut st, me, "thread-finished", 0);
        // Whoever waited for this thread's progress can go on.
        for s in st.status.iter_mut() {
            if matches!(s, Status::WaitDelivered(_)) && me == 1 {
                *s = Status::Runnable;
            }
        }
        if !st.aborted {
            self.hand_over(&mut st, me, "thread-finished");
        }
        self.cv.notify_all();
    }

    /// Called by the controlling (non-simulated) thread: releases the first thread and waits for
    /// the end of the run. Returns false on a wall-clock timeout.
    pub fn run_to_completion(&self, timeout: Duration) -> bool {
        let mut st = self.m.lock().unwrap();
        while st.status.iter().any(|s| *s == Status::NotStarted) {
            st = self.cv.wait(st).unwrap();
        }
        self.hand_over(&mut st, usize::MAX, "start");
        let t0 = std::time::Instant::now();
        loop {
            if st.status.iter().all(|s| *s == Status::Finished) {
                return true;
            }
            let (g, res) = self.cv.wait_timeout(st, Duration::from_millis(50)).unwrap();
            st = g;
            let _ = res;
            if t0.elapsed() > timeout {
                st.aborted = true;
                if st.deadlock.is_none() {
                    st.deadlock = Some("wall-clock timeout".into());
                }
                self.cv.notify_all();
                return false;
            }
        }
    }

    pub fn progress_delivered(&self, total: u64) {
        let mut st = self.m.lock().unwrap();
        st.delivered = total;
        for s in st.status.iter_mut() {
            if let Status::WaitDelivered(n) = *s {
                if total >= n {
                    *s = Status::Runnable;
                }
            }
        }
    }

    pub fn on_wake(&self, gen: u64) {
        let me = Self::tid();
        {
            let mut st = self.m.lock().unwrap();
            st.wakes_total += 1;
            st.woken.insert(gen);
            let mut hit = false;
            for s in st.status.iter_mut() {
                if *s == Status::Parked(gen) {
                    *s = Status::Runnable;
                    hit = true;
                }
            }
            if hit {
                st.wakes_while_parked += 1;
            } else if st.status.iter().any(|s| matches!(s, Status::Parked(_))) {
                st.wakes_stale += 1;
            }
            if me != usize::MAX {
                Self::event(&mut st, me, "wake", gen);
            }
        }
        if me != usize::MAX {
            self.yield_point("after-wake", gen);
        }
    }
}

impl http_serve::verif::Sched for Sched {
    fn before_acquire(&self, id: usize) {
        let ord = {
            let mut st = self.m.lock().unwrap();
            Self::mutex_ord(&mut st, id) as u64
        };
        self.yield_point("acquire", ord);
    }

    fn blocked(&self, id: usize) {
        let aborted = {
            let mut st = self.m.lock().unwrap();
            st.contended += 1;
            st.aborted
        };
        if aborted || Self::tid() == usize::MAX {
            std::thread::yield_now();
            return;
        }
        self.block(Status::BlockedMutex(id), "blocked-on-mutex", 0);
    }

    fn acquired(&self, _id: usize) {}

    fn released(&self, id: usize) {
        {
            let mut st = self.m.lock().unwrap();
            for s in st.status.iter_mut() {
                if *s == Status::BlockedMutex(id) {
                    *s = Status::Runnable;
                }
            }
        }
        self.yield_point("release", 0);
    }
}

pub type Job = Box<dyn FnOnce() + Send + 'static>;

/// Persistent helper threads (one producer, one consumer per worker): spawning two OS threads
/// per run serialises on the process's address-space lock when 16 workers do it at once.
pub struct Helper {
    tx: std::sync::mpsc::Sender<Job>,
    done: std::sync::mpsc::Receiver<()>,
}

impl Helper {
    pub fn new(name: &str) -> Helper {
        let (tx, rx) = std::sync::mpsc::channel::<Job>();
        let (dtx, done) = std::sync::mpsc::channel::<()>();
        std::thread::Builder::new()
            .name(name.to_string())
            .spawn(move || {
                while let Ok(job) = rx.recv() {
                    job();
                    if dtx.send(()).is_err() {
                        break;
                    }
                }
            })
            .expect("spawn helper");
        Helper { tx, done }
    }
    pub fn run(&self, job: Job) {
        self.tx.send(job).expect("helper alive");
    }
    pub fn wait(&self) {
        let _ = self.done.recv();
    }
}

thread_local! {
    pub static HELPERS: std::cell::RefCell<Option<(Helper, Helper)>> = const { std::cell::RefCell::new(None) };
}

pub fn with_helpers<R>(f: impl FnOnce(&Helper, &Helper) -> R) -> R {
    HELPERS.with(|h| {
        let mut h = h.borrow_mut();
        if h.is_none() {
            *h = Some((Helper::new("sim-producer"), Helper::new("sim-consumer")));
        }
        let (p, c) = h.as_ref().unwrap();
        f(p, c)
    })
}

