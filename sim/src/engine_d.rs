//! Engine D — file-sim: the real `ChunkedReadFile` over real temporary files, with the
//! positioned read behind the verif-hooks read seam (truncate / extend / short read / EINTR /
//! EIO at a drawn read instant). Decides C18; contributes to C12 and C20.

use crate::a_drain::{drain, Policy, SimBody, Step};
use crate::a_world::World;
use crate::core::{catch, violation, Ctx, RunOut, Violation};
use crate::engine_a::check_hints;
use crate::simdata::{ebyte, SimData, SimError};
use crate::tape::{mix, Tape};
use bytes::Buf;
use futures_core::Stream;
use http::header::{HeaderMap, HeaderValue};
use http_serve::{ChunkedReadFile, Entity};
use serde_json::json;
use std::cell::RefCell;
use std::fs::File;
use std::io::Write;
use std::path::PathBuf;
use std::rc::Rc;
use std::sync::atomic::{AtomicU64, Ordering};
use std::task::{Context, Poll};

type Crf = ChunkedReadFile<SimData, SimError>;

#[derive(Clone, Copy, Debug, PartialEq, Eq)]
pub enum FaultD {
    Truncate(u64),
    Extend(u64),
    Eintr,
    Eio,
}

pub struct HookState {
    pub reads: u32,
    pub fault: Option<(u32, FaultD)>,
    pub fired: Option<(FaultD, u64)>, // fault and the offset of the read it hit
    pub clamp: Vec<u32>,
    pub wfile: File,
    pub log: Vec<(u64, usize, usize)>,
}

static DIR_SEQ: AtomicU64 = AtomicU64::new(0);

thread_local! {
    static DIR: RefCell<Option<PathBuf>> = const { RefCell::new(None) };
}

pub fn scratch_dir() -> PathBuf {
    DIR.with(|d| {
        let mut d = d.borrow_mut();
        if d.is_none() {
            let base = std::env::var("VERIF_SCRATCH").unwrap_or_else(|_| format!("{}/sim/target/filesim", crate::core::verif_dir()));
            let p = PathBuf::from(base).join(format!("{}-{}", std::process::id(), DIR_SEQ.fetch_add(1, Ordering::Relaxed)));
            std::fs::create_dir_all(&p).expect("scratch dir");
            *d = Some(p);
        }
        d.clone().unwrap()
    })
}

pub fn cleanup_scratch() {
    let base = std::env::var("VERIF_SCRATCH").unwrap_or_else(|_| format!("{}/sim/target/filesim", crate::core::verif_dir()));
    if let Ok(rd) = std::fs::read_dir(&base) {
        let prefix = format!("{}-", std::process::id());
        for e in rd.flatten() {
            if e.file_name().to_string_lossy().starts_with(&prefix) {
                let _ = std::fs::remove_dir_all(e.path());
            }
        }
    }
}

fn gen_size(t: &mut Tape) -> u64 {
    if t.chance(1, 8) {
        if let Some(v) = crate::dict::pick_in(t.draw(1 << 16), 0, 400_000) {
            return v;
        }
    }
    match t.draw(10) {
        0 => 0,
        1 => 1,
        2 => 65535,
        3 => 65536,
        4 => 65537,
        5 => 131072,
        6 => 200001,
        7 => 2 + t.draw(300) as u64,
        8 => 60_000 + t.draw(12_000) as u64,
        _ => t.draw(280_000) as u64,
    }
}

fn gen_offset(t: &mut Tape, len: u64) -> u64 {
    if t.chance(1, 8) {
        if let Some(v) = crate::dict::pick_in(t.draw(1 << 16), 0, len) {
            return v;
        }
    }
    let v = match t.draw(10) {
        0 => 0,
        1 => 1,
        2 => 65535,
        3 => 65536,
        4 => 65537,
        5 => 131071,
        6 => 131072,
        7 => len.saturating_sub(1),
        8 => len,
        _ => t.below(len + 1),
    };
    v.min(len)
}

pub fn write_file(path: &PathBuf, seed: u64, len: u64) -> File {
    let mut f = std::fs::OpenOptions::new().create(true).truncate(true).write(true).read(true).open(path).expect("create scratch file");
    let data: Vec<u8> = (0..len).map(|i| ebyte(seed, i)).collect();
    f.write_all(&data).expect("write scratch file");
    f
}

pub fn install_hook(st: &Rc<RefCell<HookState>>) {
    let st = st.clone();
    http_serve::verif::set_read_hook(Some(Box::new(move |_f, size, offset| {
        let mut s = st.borrow_mut();
        let k = s.reads;
        s.reads += 1;
        let mut eff = size;
        if let Some(c) = s.clamp.get(k as usize).copied() {
            if c > 0 {
                eff = eff.min(c as usize).max(1);
            }
        }
        if let Some((at, fault)) = s.fault {
            if at == k && s.fired.is_none() {
                s.fired = Some((fault, offset));
                match fault {
                    FaultD::Truncate(to) => {
                        s.wfile.set_len(to).expect("truncate scratch file");
                    }
                    FaultD::Extend(by) => {
                        let cur = s.wfile.metadata().map(|m| m.len()).unwrap_or(0);
                        s.wfile.set_len(cur + by).expect("extend scratch file");
                    }
                    FaultD::Eintr => {
                        s.log.push((offset, size, 0));
                        return Err(std::io::Error::from_raw_os_error(libc::EINTR));
                    }
                    FaultD::Eio => {
                        s.log.push((offset, size, 0));
                        return Err(std::io::Error::from_raw_os_error(libc::EIO));
                    }
                }
            }
        }
        s.log.push((offset, size, eff));
        Ok(eff)
    })));
}

fn etag_ok(e: &[u8]) -> bool {
    e.len() >= 2 && e[0] == b'"' && e[e.len() - 1] == b'"' && e[1..e.len() - 1].iter().all(|&b| b == 0x21 || (0x23..=0x7e).contains(&b) || b >= 0x80)
}

pub fn run(ctx: &mut Ctx) -> Result<RunOut, Violation> {
    let focus = ctx.focus;
    if ctx.mode == 1 {
        return run_concurrent(ctx);
    }
    if ctx.mode == 2 {
        if ctx.tape.chance(1, 12) {
            return run_huge(ctx);
        }
        return run_sequence(ctx);
    }
    if focus == "C18" && ctx.tape.chance(1, 8) {
        return run_metadata(ctx);
    }
    if focus == "C18" && ctx.tape.chance(1, 12) {
        return run_huge(ctx);
    }
    if focus == "C18" && ctx.tape.chance(1, 4) {
        return run_sequence(ctx);
    }
    let t = &mut ctx.tape;
    let len = gen_size(t);
    let seed = t.draw(u32::MAX) as u64;
    let mut a = gen_offset(t, len);
    let mut b = gen_offset(t, len);
    if a > b {
        std::mem::swap(&mut a, &mut b);
    }
    if t.chance(1, 5) {
        a = 0;
        b = len;
    }
    let via_serve = match focus {
        "C12" | "C20" => true,
        _ => t.chance(1, 2),
    };
    if via_serve && a == b {
        // No Range header can ask for an empty range: serve the whole file instead.
        a = 0;
        b = len;
    }
    // Read-size policy: 0 none, 1 always tiny, 2 random per read.
    let clamp_mode = t.draw(3);
    let clamp: Vec<u32> = (0..24)
        .map(|_| match clamp_mode {
            0 => 0,
            1 => 1 + t.draw(3),
            _ => match t.draw(4) {
                0 => 0,
                1 => 1,
                2 => 65535,
                _ => 1 + t.draw(70_000),
            },
        })
        .collect();
    let n_reads_est = ((b - a) / 65536 + 1) as u32;
    let fault = if t.chance(if focus == "C12" { 1 } else { 3 }, 5) {
        let at = t.draw(n_reads_est.min(6) + 1);
        let kind = match t.draw(if focus == "C12" || focus == "C20" { 3 } else { 6 }) {
            0 | 1 => {
                // truncate: below the current offset / exactly at a boundary / inside / below range end
                let to = match t.draw(6) {
                    0 => 0,
                    1 => a,
                    2 => a + (b - a) / 2,
                    3 => b.saturating_sub(1),
                    4 => (a + at as u64 * 65536).min(len),
                    _ => t.below(len + 1),
                };
                FaultD::Truncate(to)
            }
            2 => FaultD::Truncate(b), // at the range end: harmless
            3 => FaultD::Extend(1 + t.draw(70_000) as u64),
            4 => FaultD::Eintr,
            _ => FaultD::Eio,
        };
        Some((at, kind))
    } else {
        None
    };
    let policy = if t.chance(1, 2) { Policy::Drain } else { Policy::HyperLike };
    let overpoll = match focus {
        "C20" => 1 + t.draw(4),
        _ => t.draw(3),
    };
    let dir = scratch_dir();
    let path = dir.join("f");
    let wfile = write_file(&path, seed, len);
    let rfile = File::open(&path).expect("open scratch file");
    let crf = match catch(|| Crf::new(rfile, HeaderMap::new())) {
        Ok(Ok(c)) => c,
        Ok(Err(e)) => return violation(fs(focus), "regular-file-refused", format!("ChunkedReadFile::new failed on a regular file: {e}")),
        Err(p) => return violation(fs(focus), "panic", p),
    };
    if focus == "C18" && crf.len() != len {
        return violation("C18", "len-differs", format!("len() = {} for a file of {len} bytes", crf.len()));
    }
    let hs = Rc::new(RefCell::new(HookState { reads: 0, fault, fired: None, clamp, wfile, log: Vec::new() }));
    install_hook(&hs);
    let desc = format!("file of {len} bytes, range {a}..{b}, via_serve={via_serve}, fault={fault:?}, read-size policy {clamp_mode}");
    ctx.ev("file", len, a ^ b.rotate_left(32));

    // What the consumer saw.
    let mut delivered: Vec<u8> = Vec::new();
    let mut steps: Vec<Step> = Vec::new();
    let mut log = None;
    let mut status = 0u16;
    let range_len = b - a;
    if via_serve {
        let mut rb = http::Request::builder().method("GET").uri("/f");
        if !(a == 0 && b == len) && b > a {
            rb = rb.header("range", format!("bytes={}-{}", a, b - 1));
        }
        let req = rb.body(()).unwrap();
        let world = World::new(0);
        world.st.lock().unwrap().tape = Some(std::mem::replace(&mut ctx.tape, Tape::replay(Vec::new())));
        let served = catch(|| http_serve::serve(crf.clone(), &req));
        match served {
            Err(p) => {
                ctx.tape = world.st.lock().unwrap().tape.take().unwrap();
                http_serve::verif::set_read_hook(None);
                return violation(fs(focus), "panic", format!("serve panicked: {p}; {desc}"));
            }
            Ok(resp) => {
                status = resp.status().as_u16();
                let mut body: std::pin::Pin<Box<SimBody>> = Box::pin(resp.into_body());
                let l = drain(&mut body, &world, policy, overpoll, 2);
                ctx.tape = world.st.lock().unwrap().tape.take().unwrap();
                // Materialise what was delivered (frames are literal Vec-backed data here).
                for s in &l.segs {
                    match s {
                        crate::simdata::Seg::Lit(v) => delivered.extend_from_slice(v),
                        crate::simdata::Seg::Ent { .. } => {}
                    }
                }
                steps = l.steps.iter().map(|s| s.1.clone()).collect();
                log = Some(l);
            }
        }
    } else {
        // Direct: poll the entity's own stream.
        let (wflag, waker) = crate::a_drain::new_waker();
        let mut cx = Context::from_waker(&waker);
        let r = catch(|| {
            let mut s = crf.get_range(a..b);
            let mut out = Vec::new();
            let mut steps = Vec::new();
            let mut errs = 0;
            for _ in 0..(range_len + 8).min(400_000) {
                match s.as_mut().poll_next(&mut cx) {
                    // a cooperative yield (Pending after waking the task itself): poll again
                    Poll::Pending if crate::a_drain::took_wake(&wflag) => continue,
                    Poll::Pending => {
                        steps.push(Step::Pending);
                        break;
                    }
                    Poll::Ready(None) => {
                        steps.push(Step::End);
                        break;
                    }
                    Poll::Ready(Some(Err(e))) => {
                        steps.push(Step::Err(format!("{e:?}")));
                        errs += 1;
                        // A transient error may be retried by polling on; a persistent one repeats.
                        if errs >= 2 {
                            break;
                        }
                    }
                    Poll::Ready(Some(Ok(mut d))) => {
                        steps.push(Step::Data(d.remaining() as u64));
                        while d.has_remaining() {
                            let c = d.chunk();
                            let l = c.len();
                            out.extend_from_slice(c);
                            d.advance(l);
                        }
                    }
                }
            }
            (out, steps)
        });
        match r {
            Ok((o, s)) => {
                delivered = o;
                steps = s;
            }
            Err(p) => {
                http_serve::verif::set_read_hook(None);
                return violation(fs(focus), "panic", format!("polling get_range panicked: {p}; {desc}"));
            }
        }
    }
    http_serve::verif::set_read_hook(None);
    let hs = hs.borrow();
    let fired = hs.fired;
    let st = &mut *ctx.stats;
    st.add("d_reads", hs.reads as u64);
    st.add("d_short_reads", hs.log.iter().filter(|l| l.2 > 0 && l.2 < l.1).count() as u64);
    match fired.map(|f| f.0) {
        Some(FaultD::Truncate(_)) => st.bump("fault_truncate"),
        Some(FaultD::Extend(_)) => st.bump("fault_extend"),
        Some(FaultD::Eintr) => st.bump("fault_eintr"),
        Some(FaultD::Eio) => st.bump("fault_eio"),
        None => {}
    }
    ctx.ev("result", delivered.len() as u64, steps.len() as u64);
    if ctx.tracing() {
        let d = desc.clone();
        ctx.note(|| format!("{d}; fired={fired:?}; status={status}"));
        let rl = hs.log.clone();
        ctx.note(|| format!("reads (offset, requested, effective): {rl:?}"));
        let s2: Vec<String> = steps.iter().take(60).map(|s| format!("{s:?}")).collect();
        ctx.note(|| format!("polls: {s2:?}"));
    }
    if ctx.wants_sample() {
        ctx.sample = Some(json!({"case": desc, "fired": format!("{fired:?}"), "status": status, "reads": hs.reads, "delivered": delivered.len(),
            "polls": steps.iter().take(12).map(|s| format!("{s:?}")).collect::<Vec<_>>()}));
    }
    let expected: Vec<u8> = (a..b).map(|i| ebyte(seed, i)).collect();
    let first_term = steps.iter().position(|s| matches!(s, Step::End | Step::Err(_) | Step::Panic(_)));
    let ended_clean = match &log {
        Some(l) => l.stopped_by_eos.is_some() || matches!(l.terminal.map(|i| &l.steps[i].1), Some(Step::End)),
        None => matches!(first_term.map(|i| &steps[i]), Some(Step::End)) ,
    };
    let cell = format!(
        "size={}|range={}|fault={}|read#{}|serve={}",
        match len { 0 => "0", 1 => "1", 2..=65535 => "<64K", 65536 => "64K", 65537..=131072 => "<=128K", _ => ">128K" },
        if b == a { "empty" } else if a == 0 && b == len { "whole" } else if a % 65536 == 0 || b % 65536 == 0 { "on-boundary" } else { "inner" },
        match fired.map(|f| f.0) { Some(FaultD::Truncate(_)) => "truncate", Some(FaultD::Extend(_)) => "extend", Some(FaultD::Eintr) => "eintr", Some(FaultD::Eio) => "eio", None => "none" },
        fault.map(|f| f.0.min(4)).unwrap_or(0),
        via_serve
    );
    let mut sig = mix(0xD0, crate::tape::hash_str(&cell));
    sig = mix(sig, clamp_mode as u64);
    sig = mix(sig, steps.len().min(12) as u64);

    if let Some(Step::Panic(p)) = steps.iter().find(|s| matches!(s, Step::Panic(_))) {
        let after_term = first_term.map(|i| !matches!(steps[i], Step::Panic(_))).unwrap_or(false);
        return match (focus, after_term) {
            ("C20", true) => violation("C20", "panic-after-termination", format!("{p}; {desc}; polls {:?}", steps.iter().rev().take(6).collect::<Vec<_>>())),
            ("C20", false) => Ok(RunOut { sig, nontrivial: false }),
            (_, true) => Ok(RunOut { sig, nontrivial: false }),
            _ => violation(fs(focus), "panic", format!("{p}; {desc}")),
        };
    }
    if let Some(l) = &log {
        if let Some(p) = &l.hint_panic {
            return violation(fs(focus), "panic", format!("{p}; {desc}"));
        }
    }

    match focus {
        "C18" => {
            ctx.stats.grid.insert(cell);
            // Non-empty chunks.
            if steps.iter().take(first_term.unwrap_or(steps.len())).any(|s| *s == Step::Data(0)) {
                return violation("C18", "empty-chunk", format!("{desc}; polls {:?}", steps.iter().take(12).collect::<Vec<_>>()));
            }
            // Whatever was delivered before the first terminal event is a correct prefix.
            let upto: usize = match &log {
                Some(l) => l.total as usize,
                None => {
                    let mut n = 0usize;
                    for s in steps.iter().take(first_term.unwrap_or(steps.len())) {
                        if let Step::Data(k) = s {
                            n += *k as usize;
                        }
                    }
                    n
                }
            };
            if upto > expected.len() || delivered[..upto.min(delivered.len())] != expected[..upto.min(delivered.len())] {
                return violation("C18", "wrong-bytes", format!("{desc}: the first {upto} delivered bytes are not the file's bytes at {a}.."));
            }
            let harmful = match fired {
                Some((FaultD::Truncate(to), _)) => to < b && range_len > 0,
                _ => false,
            };
            let transient = matches!(fired.map(|f| f.0), Some(FaultD::Eintr | FaultD::Eio));
            if harmful {
                // Must fail: never a clean (short) end, never loop.
                if ended_clean {
                    // A truncation that lands after the affected bytes were already read is
                    // harmless: judge by what was delivered.
                    if upto as u64 != range_len {
                        return violation("C18", "short-clean-end-after-truncation", format!("{desc}: ended cleanly after {upto} of {range_len} bytes"));
                    }
                } else if first_term.is_none() {
                    return violation("C18", "no-terminal-after-truncation", format!("{desc}: {} polls without end or error", steps.len()));
                }
            } else if transient {
                // Fail, or deliver the right bytes: never a short clean end, never wrong bytes.
                // (Whether the stream resumes after the error or stays finished is its choice.)
                let saw_error = steps.iter().any(|s| matches!(s, Step::Err(_)));
                if !saw_error && (!ended_clean || upto as u64 != range_len) {
                    return violation("C18", "short-clean-end-after-io-error", format!("{desc}: no error was reported, yet {upto} of {range_len} bytes arrived (clean end = {ended_clean})"));
                }
                if !via_serve && (delivered.len() > expected.len() || delivered[..] != expected[..delivered.len()]) {
                    return violation("C18", "wrong-bytes-after-io-error", format!("{desc}: the {} bytes delivered in total (also after the error) are not a prefix of the range", delivered.len()));
                }
            } else {
                // Fault-free (or harmless fault): exact bytes, clean end.
                if !ended_clean {
                    return violation("C18", "no-clean-end", format!("{desc}: polls {:?}", steps.iter().rev().take(5).collect::<Vec<_>>()));
                }
                if delivered[..upto.min(delivered.len())] != expected[..] {
                    return violation("C18", "wrong-bytes", format!("{desc}: delivered {upto} bytes, expected {}", expected.len()));
                }
            }
            if via_serve && status != 200 && status != 206 && !(status == 416) {
                return violation("C18", "unexpected-status", format!("{desc}: status {status}"));
            }
            if steps.len() as u64 > range_len + 16 {
                return violation("C18", "too-many-polls", format!("{desc}: {} polls", steps.len()));
            }
            ctx.stats.bump("c18_streams_judged");
            if hs.reads >= 2 { ctx.stats.bump("c18_multi_read_streams"); }
            Ok(RunOut { sig, nontrivial: range_len > 0 })
        }
        "C12" => {
            let l = log.as_ref().unwrap();
            check_hints("C12", l, ended_clean, true)?;
            ctx.stats.add("c12_samples_checked", l.steps.len() as u64);
            Ok(RunOut { sig, nontrivial: l.steps.len() > 1 })
        }
        "C20" => {
            let l = log.as_ref().unwrap();
            let transient = matches!(fired.map(|f| f.0), Some(FaultD::Eintr | FaultD::Eio));
            let Some(term) = l.terminal.or(l.stopped_by_eos) else { return Ok(RunOut { sig, nontrivial: false }) };
            if transient {
                // The file stream does not stay failed after a transient error: the property's
                // proviso is not met, nothing to judge.
                return Ok(RunOut { sig, nontrivial: false });
            }
            if l.data_after_terminal > 0 {
                return violation("C20", "data-after-termination", format!("{desc}: data frames after the terminal event; polls {:?}", steps.iter().rev().take(6).collect::<Vec<_>>()));
            }
            let extra = l.steps.len().saturating_sub(term + if l.terminal == Some(term) { 1 } else { 0 });
            let kind = if l.terminal == Some(term) { match &l.steps[term].1 { Step::End => "clean-end", _ => "truncation-error" } } else { "end-of-stream-flag" };
            ctx.stats.grid.insert(format!("file|{kind}|extra={}", extra.min(4)));
            ctx.stats.add("c20_extra_polls", extra as u64);
            Ok(RunOut { sig: mix(sig, extra as u64), nontrivial: extra > 0 })
        }
        _ => Ok(RunOut { sig, nontrivial: false }),
    }
}

fn fs(f: &str) -> &'static str {
    match f {
        "C18" => "C18",
        "C20" => "C20",
        _ => "C12",
    }
}

/// Metadata clauses of C18: length / mtime frozen at construction, ETag syntax, stability and
/// sensitivity, refusal of non-regular files.
/// ETag as a function of (identity, length, modification time): one file (one inode) is taken
/// through 3-5 states whose lengths, seconds and nanoseconds all come from ONE small pool, so
/// that fields trade values, repeat each other, or differ in a single field. Equal states must
/// give equal tags, different states different tags - whatever the way the tag is built.
fn run_etag_matrix(ctx: &mut Ctx) -> Result<RunOut, Violation> {
    let t = &mut ctx.tape;
    let pool: [u64; 8] = [0, 1, 4096, 8192, 65_536, 200_001, 1_000_000, 999_999_999];
    let mut pick = |t: &mut Tape| if t.chance(1, 6) { crate::dict::pick_in(t.draw(1 << 16), 0, 999_999_999).unwrap_or(4096) } else { pool[t.draw(8) as usize] };
    let n = 3 + t.draw(3) as usize;
    let mut states: Vec<(u64, u64, u32)> = Vec::new(); // (len, secs, nanos)
    for _ in 0..n {
        let len = pick(t).min(1_000_000);
        let secs = 1_000_000_000 + pick(t);
        let nanos = pick(t).min(999_999_999) as u32;
        states.push((len, secs, nanos));
    }
    if t.chance(1, 2) && n >= 2 {
        // a state whose length and nanoseconds are those of another state, traded
        let (l, s, ns) = states[0];
        states[1] = ((ns as u64).min(1_000_000), s, l.min(999_999_999) as u32);
    }
    let dir = scratch_dir();
    let path = dir.join("e");
    let _ = std::fs::remove_file(&path);
    let f = write_file(&path, 1, 0);
    let mut tags: Vec<Vec<u8>> = Vec::new();
    for (len, secs, nanos) in &states {
        f.set_len(*len).expect("set_len");
        f.set_modified(std::time::UNIX_EPOCH + std::time::Duration::new(*secs, *nanos)).expect("set mtime");
        let c = match Crf::new(File::open(&path).expect("open"), HeaderMap::new()) {
            Ok(c) => c,
            Err(e) => return violation("C18", "regular-file-refused", e.to_string()),
        };
        let Some(e) = c.etag() else { return violation("C18", "no-etag", "etag() is None".into()) };
        if !etag_ok(e.as_bytes()) {
            return violation("C18", "etag-syntax", format!("{e:?} is not a valid strong entity-tag"));
        }
        tags.push(e.as_bytes().to_vec());
    }
    ctx.ev("etag-matrix", n as u64, states.iter().fold(0u64, |a, s| mix(a, s.0 ^ s.1 << 20 ^ (s.2 as u64) << 40)));
    for i in 0..n {
        for j in i + 1..n {
            let same_state = states[i] == states[j];
            let same_tag = tags[i] == tags[j];
            if same_state && !same_tag {
                return violation("C18", "etag-unstable", format!("the same file state {:?} gave {:?} and then {:?}", states[i], String::from_utf8_lossy(&tags[i]), String::from_utf8_lossy(&tags[j])));
            }
            if !same_state && same_tag {
                return violation("C18", "etag-collision", format!("one file in two states (len, mtime secs, mtime nanos) = {:?} and {:?} has the same ETag {:?}", states[i], states[j], String::from_utf8_lossy(&tags[i])));
            }
        }
    }
    ctx.stats.bump("c18_etag_state_matrices");
    ctx.stats.grid.insert("metadata|etag-state-matrix".to_string());
    if ctx.wants_sample() {
        ctx.sample = Some(json!({"metadata_scenario": "etag-state-matrix", "states": format!("{states:?}")}));
    }
    Ok(RunOut { sig: mix(0xE7A6, n as u64 ^ states[0].0.min(7) << 8), nontrivial: true })
}

fn run_metadata(ctx: &mut Ctx) -> Result<RunOut, Violation> {
    if ctx.tape.chance(1, 4) {
        return run_etag_matrix(ctx);
    }
    let t = &mut ctx.tape;
    let len = gen_size(t).min(70_000);
    let seed = t.draw(u32::MAX) as u64;
    let scenario = t.draw(6);
    let dir = scratch_dir();
    let path = dir.join("m");
    let _ = std::fs::remove_file(&path);
    let mut w = write_file(&path, seed, len);
    // A sub-second mtime, as real files have.
    // Past (2020..2023) or future (2040+) relative to the real clock; optionally the clock seam
    // also reports a time far below every mtime (a machine whose clock is behind the file's).
    let secs = if t.chance(1, 3) { 2_200_000_000 + t.draw(100_000_000) as u64 } else { 1_600_000_000 + t.draw(100_000_000) as u64 };
    let mt = std::time::UNIX_EPOCH + std::time::Duration::new(secs, t.draw(1_000_000_000));
    let slow_clock = t.chance(1, 3);
    if slow_clock {
        http_serve::verif::set_clock(Some(Box::new(|_| std::time::UNIX_EPOCH + std::time::Duration::from_secs(1_000_000_000))));
        ctx.stats.bump("d_metadata_clock_before_mtime");
    }
    if secs > 2_000_000_000 {
        ctx.stats.bump("d_metadata_mtime_in_future");
    }
    struct ClockReset;
    impl Drop for ClockReset {
        fn drop(&mut self) {
            http_serve::verif::set_clock(None);
        }
    }
    let _reset = ClockReset;
    w.set_modified(mt).expect("set mtime");
    let open = |p: &PathBuf| Crf::new(File::open(p).expect("open"), HeaderMap::new());
    ctx.ev("metadata", scenario as u64, len);
    let c1 = match open(&path) {
        Ok(c) => c,
        Err(e) => return violation("C18", "regular-file-refused", e.to_string()),
    };
    let e1: Option<HeaderValue> = c1.etag();
    let Some(e1) = e1 else { return violation("C18", "no-etag", "etag() is None".into()) };
    if !etag_ok(e1.as_bytes()) {
        return violation("C18", "etag-syntax", format!("{:?} is not a valid strong entity-tag", e1));
    }
    if c1.len() != len || c1.last_modified() != Some(mt) {
        return violation("C18", "metadata-differs", format!("len {} mtime {:?} for a file of {len} bytes modified at {mt:?}", c1.len(), c1.last_modified()));
    }
    let name = match scenario {
        0 => {
            let c2 = open(&path).map_err(|e| Violation { prop: "C18", oracle: "regular-file-refused", msg: e.to_string() })?;
            if c2.etag() != Some(e1.clone()) {
                return violation("C18", "etag-unstable", format!("two instances on an unmodified file: {:?} vs {:?}", e1, c2.etag()));
            }
            "reopen-unmodified"
        }
        1 => {
            w.write_all(b"x").unwrap();
            w.set_modified(mt).unwrap();
            let c2 = open(&path).unwrap();
            if c2.etag() == Some(e1.clone()) {
                return violation("C18", "etag-insensitive-to-length", format!("{:?} unchanged after appending a byte", e1));
            }
            if c1.len() != len || c1.last_modified() != Some(mt) || c1.etag() != Some(e1.clone()) {
                return violation("C18", "metadata-not-frozen", "the first instance changed after the file was modified".into());
            }
            "append"
        }
        2 => {
            let mt2 = mt + std::time::Duration::new(0, 1);
            w.set_modified(mt2).unwrap();
            let c2 = open(&path).unwrap();
            if c2.etag() == Some(e1.clone()) {
                return violation("C18", "etag-insensitive-to-mtime", format!("{:?} unchanged after the mtime moved by 1 ns", e1));
            }
            if c1.last_modified() != Some(mt) {
                return violation("C18", "metadata-not-frozen", "last_modified() of the first instance moved".into());
            }
            "mtime-change"
        }
        3 => {
            // Replace by rename: new inode, same length and mtime.
            let p2 = dir.join("m2");
            let w2 = write_file(&p2, seed, len);
            w2.set_modified(mt).unwrap();
            std::fs::rename(&p2, &path).unwrap();
            let c2 = open(&path).unwrap();
            if c2.etag() == Some(e1.clone()) {
                return violation("C18", "etag-insensitive-to-identity", format!("{:?} unchanged after the file was replaced by rename", e1));
            }
            "replace-by-rename"
        }
        4 => {
            match catch(|| Crf::new(File::open(&dir).expect("open dir"), HeaderMap::new())) {
                Ok(Ok(_)) => return violation("C18", "directory-accepted", "ChunkedReadFile::new succeeded on a directory".into()),
                Err(p) => return violation("C18", "panic", p),
                Ok(Err(_)) => {}
            }
            "directory"
        }
        _ => {
            // Every kind of non-regular file a descriptor can stand for here; plus two regular
            // controls (an anonymous memory file, a symlink followed to a regular file).
            use std::os::unix::fs::OpenOptionsExt;
            use std::os::unix::io::FromRawFd;
            let kind = ctx.tape.draw(12);
            let sock_path = dir.join("m.sock");
            let fifo_path = dir.join("m.fifo");
            let link_path = dir.join("m.lnk");
            let dirlink_path = dir.join("m.dlnk");
            for p in [&sock_path, &fifo_path, &link_path, &dirlink_path] {
                let _ = std::fs::remove_file(p);
            }
            let cpath = |p: &PathBuf| std::ffi::CString::new(p.to_string_lossy().as_bytes()).unwrap();
            let mut keep_listener = None;
            let (kname, file, must_accept): (&'static str, Option<File>, bool) = match kind {
                0 => ("char-device-null", File::open("/dev/null").ok(), false),
                1 => ("char-device-zero", File::open("/dev/zero").ok(), false),
                2 => ("unix-socket-pair", std::os::unix::net::UnixStream::pair().ok().map(|(a, _b)| File::from(std::os::fd::OwnedFd::from(a))), false),
                3 => {
                    keep_listener = std::os::unix::net::UnixListener::bind(&sock_path).ok();
                    ("unix-socket-path-O_PATH", std::fs::OpenOptions::new().read(true).custom_flags(libc::O_PATH).open(&sock_path).ok(), false)
                }
                4 => {
                    let ok = unsafe { libc::mkfifo(cpath(&fifo_path).as_ptr(), 0o600) } == 0;
                    ("fifo", if ok { std::fs::OpenOptions::new().read(true).custom_flags(libc::O_NONBLOCK).open(&fifo_path).ok() } else { None }, false)
                }
                5 => {
                    let mut fds = [0i32; 2];
                    let ok = unsafe { libc::pipe(fds.as_mut_ptr()) } == 0;
                    ("pipe", if ok { unsafe { libc::close(fds[1]) }; Some(unsafe { File::from_raw_fd(fds[0]) }) } else { None }, false)
                }
                6 => {
                    let _ = std::os::unix::fs::symlink(&path, &link_path);
                    ("symlink-handle-O_PATH|O_NOFOLLOW", std::fs::OpenOptions::new().read(true).custom_flags(libc::O_PATH | libc::O_NOFOLLOW).open(&link_path).ok(), false)
                }
                7 => {
                    let _ = std::os::unix::fs::symlink(&dir, &dirlink_path);
                    ("symlink-to-directory", File::open(&dirlink_path).ok(), false)
                }
                8 => ("directory-O_PATH", std::fs::OpenOptions::new().read(true).custom_flags(libc::O_PATH | libc::O_DIRECTORY).open(&dir).ok(), false),
                9 => {
                    let fd = unsafe { libc::eventfd(0, 0) };
                    ("eventfd-(anonymous-inode)", if fd >= 0 { Some(unsafe { File::from_raw_fd(fd) }) } else { None }, false)
                }
                10 => {
                    let fd = unsafe { libc::memfd_create(c"m".as_ptr(), 0) };
                    ("memfd-(regular)", if fd >= 0 { Some(unsafe { File::from_raw_fd(fd) }) } else { None }, true)
                }
                _ => {
                    let _ = std::os::unix::fs::symlink(&path, &link_path);
                    ("symlink-followed-to-regular", File::open(&link_path).ok(), true)
                }
            };
            let out = match file {
                None => {
                    ctx.stats.bump("d_nonregular_kind_unavailable_here");
                    kname
                }
                Some(f) => {
                    // What the kernel says this descriptor is - the reference for the clause.
                    let is_reg = f.metadata().map(|m| m.file_type().is_file()).unwrap_or(false);
                    if is_reg != must_accept {
                        ctx.stats.bump("d_nonregular_kind_unexpected_type_here");
                        kname
                    } else {
                        match catch(|| Crf::new(f, HeaderMap::new())) {
                            Ok(Ok(_)) if !must_accept => return violation("C18", "non-regular-file-accepted", format!("ChunkedReadFile::new succeeded on a {kname}")),
                            Ok(Err(e)) if must_accept => return violation("C18", "regular-file-refused", format!("ChunkedReadFile::new failed on a {kname}: {e}")),
                            Err(p) => return violation("C18", "panic", p),
                            _ => {}
                        }
                        ctx.stats.bump("c18_file_kinds_judged");
                        kname
                    }
                }
            };
            drop(keep_listener);
            for p in [&sock_path, &fifo_path, &link_path, &dirlink_path] {
                let _ = std::fs::remove_file(p);
            }
            out
        }
    };
    ctx.stats.grid.insert(format!("metadata|{name}"));
    ctx.stats.bump("c18_metadata_scenarios");
    if ctx.wants_sample() {
        ctx.sample = Some(json!({"metadata_scenario": name, "len": len, "etag": String::from_utf8_lossy(e1.as_bytes())}));
    }
    Ok(RunOut { sig: mix(0xDE7A, scenario as u64 ^ (len.min(3) << 8)), nontrivial: true })
}

#[allow(dead_code)]
fn _s(_: &dyn Stream<Item = ()>) {}

/// Mode 1: two streams over ONE ChunkedReadFile (clones share the open file), each polled on
/// its own simulated thread; the baton scheduler interleaves them at every lseek/read/pread on
/// that file (system-call seam). Each stream must still yield exactly its range.
fn run_concurrent(ctx: &mut Ctx) -> Result<RunOut, Violation> {
    use crate::sched::{with_helpers, Job, Sched, HELPERS};
    use std::os::unix::io::AsRawFd;
    use std::sync::{Arc, Mutex};
    let t = &mut ctx.tape;
    let len = [1u64, 300, 65536, 70_000, 140_000, 200_001][t.draw(6) as usize] + t.draw(50) as u64;
    let seed = t.draw(u32::MAX) as u64;
    let mut ranges = Vec::new();
    for _ in 0..2 {
        let mut a = gen_offset(t, len);
        let mut b = gen_offset(t, len);
        if a > b {
            std::mem::swap(&mut a, &mut b);
        }
        if a == b {
            a = 0;
            b = len;
        }
        ranges.push((a, b));
    }
    let trace = ctx.tracing();
    let dir = scratch_dir();
    let path = dir.join("c");
    let _w = write_file(&path, seed, len);
    let rfile = File::open(&path).expect("open scratch file");
    let fd = rfile.as_raw_fd();
    let crf = match Crf::new(rfile, HeaderMap::new()) {
        Ok(c) => c,
        Err(e) => return violation("C18", "regular-file-refused", e.to_string()),
    };
    let tape = std::mem::replace(&mut ctx.tape, Tape::replay(Vec::new()));
    let sched = Sched::new(tape, 2, trace);
    let outs: Vec<Arc<Mutex<(Vec<u8>, Vec<Step>)>>> = (0..2).map(|_| Arc::new(Mutex::new((Vec::new(), Vec::new())))).collect();
    let mut jobs: Vec<Job> = Vec::new();
    for tid in 0..2usize {
        let sched = sched.clone();
        let crf = crf.clone();
        let out = outs[tid].clone();
        let (a, b) = ranges[tid];
        jobs.push(Box::new(move || {
            sched.start_thread(tid);
            crate::sysseam::register(fd, &sched);
            let r = catch(|| {
                let (wflag, waker) = crate::a_drain::new_waker();
                let mut cx = Context::from_waker(&waker);
                let mut s = crf.get_range(a..b);
                let mut bytes = Vec::new();
                let mut steps = Vec::new();
                for _ in 0..(b - a + 8).min(100_000) {
                    match s.as_mut().poll_next(&mut cx) {
                        Poll::Pending if crate::a_drain::took_wake(&wflag) => continue,
                        Poll::Pending => {
                            steps.push(Step::Pending);
                            break;
                        }
                        Poll::Ready(None) => {
                            steps.push(Step::End);
                            break;
                        }
                        Poll::Ready(Some(Err(e))) => {
                            steps.push(Step::Err(format!("{e:?}")));
                            break;
                        }
                        Poll::Ready(Some(Ok(mut d))) => {
                            steps.push(Step::Data(d.remaining() as u64));
                            while d.has_remaining() {
                                let c = d.chunk();
                                let l = c.len();
                                bytes.extend_from_slice(c);
                                d.advance(l);
                            }
                        }
                    }
                }
                (bytes, steps)
            });
            crate::sysseam::unregister();
            let panic = match r {
                Ok(v) => {
                    *out.lock().unwrap() = v;
                    None
                }
                Err(p) => Some(p),
            };
            sched.finish_thread(panic);
            crate::sched::TID.with(|t| t.set(usize::MAX));
        }));
    }
    let j1 = jobs.pop().unwrap();
    let j0 = jobs.pop().unwrap();
    let finished = with_helpers(|h0, h1| {
        h0.run(j0);
        h1.run(j1);
        let f = sched.run_to_completion(std::time::Duration::from_secs(15));
        if f {
            h0.wait();
            h1.wait();
        }
        f
    });
    if !finished {
        HELPERS.with(|h| *h.borrow_mut() = None);
    }
    let mut st = sched.m.lock().unwrap();
    ctx.tape = st.tape.take().expect("tape comes back");
    ctx.hash = mix(ctx.hash, st.hash);
    if let Some(tr) = st.trace.take() {
        ctx.note(|| format!("file of {len} bytes, streams {ranges:?} over one ChunkedReadFile; schedule:\n    {}", tr.join("\n    ")));
    }
    ctx.stats.add("d_concurrent_context_switches", st.switches);
    ctx.stats.add("d_concurrent_syscall_scheduling_points", st.steps);
    let desc = format!("file of {len} bytes, two streams {ranges:?} over one ChunkedReadFile on two simulated threads ({} context switches)", st.switches);
    if let Some(p) = st.panics.first() {
        return violation("C18", "panic", format!("{p}; {desc}"));
    }
    if !finished || st.deadlock.is_some() {
        return violation("C18", "hang", format!("{:?}; {desc}", st.deadlock));
    }
    let sig = mix(mix(0xD1, st.sig), len);
    let switches = st.switches;
    drop(st);
    for tid in 0..2 {
        let (a, b) = ranges[tid];
        let o = outs[tid].lock().unwrap();
        let expected: Vec<u8> = (a..b).map(|i| ebyte(seed, i)).collect();
        ctx.ev("stream", o.0.len() as u64, o.1.len() as u64);
        if !matches!(o.1.last(), Some(Step::End)) {
            return violation("C18", "concurrent-stream-failed", format!("stream {tid} ({a}..{b}) ended with {:?}; {desc}", o.1.last()));
        }
        if o.0 != expected {
            let eq = o.0.iter().zip(&expected).take_while(|(x, y)| x == y).count();
            return violation("C18", "concurrent-stream-wrong-bytes", format!("stream {tid} ({a}..{b}) delivered {} bytes, first difference at range offset {eq}; {desc}", o.0.len()));
        }
    }
    ctx.stats.bump("c18_concurrent_pairs_judged");
    if ctx.wants_sample() {
        ctx.sample = Some(json!({"case": desc}));
    }
    Ok(RunOut { sig, nontrivial: switches > 0 })
}

/// Sparse multi-gigabyte files: ranges of 4 GiB and more, of which only the first few chunks
/// are pulled (a narrowing cast or 32-bit arithmetic in the read-size computation shows at once).
fn run_huge(ctx: &mut Ctx) -> Result<RunOut, Violation> {
    use std::os::unix::fs::FileExt as _;
    let c02 = ctx.focus == "C02";
    let prop: &'static str = if c02 { "C02" } else { "C18" };
    let t = &mut ctx.tape;
    const G4: u64 = 1 << 32;
    let mut len = [G4 - 1, G4, G4 + 1, G4 + 65536, 2 * G4, G4 / 2, 3 * (G4 / 2), 1 << 40, G4 + 65535, 5 * G4 + 12345][t.draw(10) as usize];
    if t.chance(1, 4) {
        if let Some(v) = crate::dict::pick_in(t.draw(1 << 16), 1 << 31, 1 << 44) {
            len = v + [0u64, 1, 65536][t.draw(3) as usize];
        }
    }
    let a = [0u64, 0, 1, 12345, 65536, G4 - 5, len / 2][t.draw(7) as usize].min(len - 1);
    let b = match t.draw(4) {
        0 | 1 => len,
        2 => (a + G4).min(len),
        _ => (a + G4 + 65536).min(len),
    };
    let via_serve = c02 || t.chance(1, 2);
    let pulls = 1 + t.draw(3) as usize;
    let seed = t.draw(u32::MAX) as u64;
    let dir = scratch_dir();
    let path = dir.join("h");
    let w = write_file(&path, seed, 0);
    w.set_len(len).expect("sparse file");
    // A few real bytes where the stream will read, so that offsets are checked too.
    let marks: Vec<u8> = (0..4096u64).map(|i| ebyte(seed, i)).collect();
    let fit = |off: u64| &marks[..(len - off).min(marks.len() as u64) as usize];
    w.write_all_at(fit(a), a).expect("write markers");
    let second = (a + 65536).min(len.saturating_sub(4096));
    w.write_all_at(fit(second), second).expect("write markers");
    let rfile = File::open(&path).expect("open");
    let check = File::open(&path).expect("open");
    let crf = match Crf::new(rfile, HeaderMap::new()) {
        Ok(c) => c,
        Err(e) => return violation(prop, "regular-file-refused", e.to_string()),
    };
    let desc = format!("sparse file of {len} bytes, range {a}..{b} ({} bytes), via_serve={via_serve}, first {pulls} chunks pulled", b - a);
    ctx.ev("huge", len, a ^ b.rotate_left(17));
    if crf.len() != len {
        return violation(prop, "len-differs", format!("{desc}: len() = {}", crf.len()));
    }
    let (wflag, waker) = crate::a_drain::new_waker();
    let mut cx = Context::from_waker(&waker);
    let r = catch(|| -> Result<(), String> {
        let mut off = a;
        if via_serve {
            let req = http::Request::builder().method("GET").uri("/h").header("range", format!("bytes={}-{}", a, b - 1)).body(()).unwrap();
            let resp = http_serve::serve(crf.clone(), &req);
            let whole = a == 0 && b == len;
            if resp.status().as_u16() != 206 && !(whole && resp.status().as_u16() == 200) {
                return Err(format!("status {}", resp.status()));
            }
            let cl = resp.headers().get("content-length").and_then(|v| v.to_str().ok()).and_then(|v| v.parse::<u64>().ok());
            if cl != Some(b - a) {
                return Err(format!("Content-Length {cl:?}, expected {}", b - a));
            }
            let mut body: std::pin::Pin<Box<SimBody>> = Box::pin(resp.into_body());
            for i in 0..pulls {
                if off >= b {
                    break;
                }
                match http_body::Body::poll_frame(body.as_mut(), &mut cx) {
                    Poll::Ready(Some(Ok(f))) => {
                        let mut d = f.into_data().map_err(|_| "trailers".to_string())?;
                        let n = d.remaining();
                        if n == 0 || n as u64 > b - off {
                            return Err(format!("frame #{} has {n} bytes with {} bytes left in the range", i + 1, b - off));
                        }
                        let got = d.copy_to_bytes(n);
                        let mut want = vec![0u8; n];
                        check.read_exact_at(&mut want, off).map_err(|e| e.to_string())?;
                        if got[..] != want[..] {
                            return Err(format!("frame #{} at offset {off} does not hold the file's bytes", i + 1));
                        }
                        off += n as u64;
                    }
                    other => return Err(format!("poll #{} on an unmodified file gave {:?}", i + 1, other.map(|o| o.map(|r| r.map(|_| "frame")))).replace("SimError", "")),
                }
            }
        } else {
            let mut s = crf.get_range(a..b);
            for i in 0..pulls {
                if off >= b {
                    break;
                }
                match s.as_mut().poll_next(&mut cx) {
                    Poll::Ready(Some(Ok(mut d))) => {
                        let n = d.remaining();
                        if n == 0 || n as u64 > b - off {
                            return Err(format!("chunk #{} has {n} bytes with {} bytes left in the range", i + 1, b - off));
                        }
                        let got = d.copy_to_bytes(n);
                        let mut want = vec![0u8; n];
                        check.read_exact_at(&mut want, off).map_err(|e| e.to_string())?;
                        if got[..] != want[..] {
                            return Err(format!("chunk #{} at offset {off} does not hold the file's bytes", i + 1));
                        }
                        off += n as u64;
                    }
                    Poll::Ready(Some(Err(e))) => return Err(format!("poll #{} on an unmodified file failed: {e:?}", i + 1)),
                    Poll::Ready(None) => return Err(format!("stream ended after {} of {} bytes", off - a, b - a)),
                    Poll::Pending if crate::a_drain::took_wake(&wflag) => continue,
                        Poll::Pending => return Err("Pending".into()),
                }
            }
        }
        Ok(())
    });
    let _ = w.set_len(0);
    match r {
        Err(p) => violation(prop, "panic", format!("{p}; {desc}")),
        Ok(Err(e)) => violation(prop, "huge-range", format!("{desc}: {e}")),
        Ok(Ok(())) => {
            ctx.stats.bump("c18_huge_sparse_ranges");
            ctx.stats.grid.insert(format!("huge|len={len}|serve={via_serve}"));
            Ok(RunOut { sig: mix(mix(0x4A6E, len), a ^ (via_serve as u64) << 60 ^ b), nontrivial: true })
        }
    }
}

/// Several exchanges, one after the other, over ONE ChunkedReadFile (clones share its state):
/// direct streams, single-range and multi-range responses through serve(), with the file
/// truncated between two of them. Whatever an instance remembers from an earlier stream must
/// not change what a later one delivers.
fn run_sequence(ctx: &mut Ctx) -> Result<RunOut, Violation> {
    // Under C02 (mode 2): only responses through serve(), no truncation; violations are C02's.
    let c02 = ctx.focus == "C02";
    let prop: &'static str = if c02 { "C02" } else { "C18" };
    let t = &mut ctx.tape;
    let len: u64 = match t.draw(5) {
        0 => 1 + t.draw(64) as u64,
        1 => 1000 + t.draw(3096) as u64,
        2 => 4096,
        3 => 65536,
        _ => 4097 + t.draw(70_000) as u64,
    };
    let seed = t.draw(u32::MAX) as u64;
    let dir = scratch_dir();
    let path = dir.join("q");
    let wfile = write_file(&path, seed, len);
    let crf = match Crf::new(File::open(&path).expect("open"), HeaderMap::new()) {
        Ok(c) => c,
        Err(e) => return violation(prop, "regular-file-refused", e.to_string()),
    };
    // Short reads throughout (the read seam clamps every positioned read to a drawn size).
    let clamp_mode = t.draw(3);
    let clamp: Vec<u32> = (0..64)
        .map(|_| match clamp_mode {
            0 => 0,
            1 => 1 + t.draw(3),
            _ => [0u32, 1, 7, 1000, 4096][t.draw(5) as usize],
        })
        .collect();
    let hook_w = std::fs::OpenOptions::new().write(true).open(&path).expect("open for hook");
    let hs = Rc::new(RefCell::new(HookState { reads: 0, fault: None, fired: None, clamp, wfile: hook_w, log: Vec::new() }));
    install_hook(&hs);
    struct HookReset;
    impl Drop for HookReset {
        fn drop(&mut self) {
            http_serve::verif::set_read_hook(None);
        }
    }
    let _hook_reset = HookReset;
    let n_steps = 2 + t.draw(2);
    let trunc_before = if c02 { n_steps } else { 1 + t.draw(n_steps) }; // may be == n_steps: no truncation at all
    let mut cur_len = len;
    let mut history: Vec<String> = Vec::new();
    let mut sig = mix(0x5E9, len.min(70_000) / 1000);
    ctx.ev("sequence", len, n_steps as u64);
    for step in 0..n_steps {
        let t = &mut ctx.tape;
        if step == trunc_before {
            let to = match t.draw(4) {
                0 => 0,
                1 => cur_len / 2,
                2 => cur_len.saturating_sub(1),
                _ => t.below(cur_len + 1),
            };
            wfile.set_len(to).expect("truncate");
            cur_len = to;
            history.push(format!("truncate to {to}"));
            ctx.stats.bump("fault_truncate_between_streams");
        }
        // 1..3 ranges for this step.
        let kind = if c02 { 1 + t.draw(2) } else { t.draw(3) }; // 0 direct, 1 serve single, 2 serve multi
        let nr = if kind == 2 { 2 + t.draw(2) as usize } else { 1 };
        let mut ranges: Vec<(u64, u64)> = Vec::new();
        for _ in 0..nr {
            let (a, b) = match t.draw(5) {
                0 => (0, len),
                1 => (len - (1 + t.draw(10) as u64).min(len), len), // a tail
                2 => (0, (1 + t.draw(10) as u64).min(len)),         // a head
                _ => {
                    let a = t.below(len);
                    (a, (a + 1 + t.draw(40) as u64).min(len))
                }
            };
            ranges.push((a, b));
        }
        sig = mix(sig, kind as u64 ^ (nr as u64) << 4);
        let intact = ranges.iter().all(|r| r.1 <= cur_len);
        let desc = format!("file of {len} bytes (now {cur_len}), history {history:?}, step {}: {} {ranges:?}", step + 1, ["get_range", "serve single range", "serve multi-range"][kind as usize]);
        let (wflag, waker) = crate::a_drain::new_waker();
        let mut cx = Context::from_waker(&waker);
        // Runs the step; returns (bytes or segments, ended cleanly, saw error).
        let crf2 = crf.clone();
        let rs = ranges.clone();
        let r = catch(move || -> Result<(Vec<u8>, bool, bool, u16, Option<Vec<u8>>), String> {
            let mut out = Vec::new();
            let mut clean = false;
            let mut failed = false;
            let mut status = 0u16;
            let mut ctype = None;
            if kind == 0 {
                let (a, b) = rs[0];
                let mut s = crf2.get_range(a..b);
                for _ in 0..(b - a + 8) {
                    match s.as_mut().poll_next(&mut cx) {
                        Poll::Ready(Some(Ok(mut d))) => {
                            if d.remaining() == 0 {
                                return Err("empty chunk".into());
                            }
                            let n = d.remaining();
                            out.extend_from_slice(&d.copy_to_bytes(n));
                        }
                        Poll::Ready(Some(Err(_))) => {
                            failed = true;
                            break;
                        }
                        Poll::Ready(None) => {
                            clean = true;
                            break;
                        }
                        Poll::Pending if crate::a_drain::took_wake(&wflag) => continue,
                        Poll::Pending => return Err("Pending".into()),
                    }
                }
            } else {
                let spec: Vec<String> = rs.iter().map(|(a, b)| format!("{}-{}", a, b - 1)).collect();
                let req = http::Request::builder().method("GET").uri("/q").header("range", format!("bytes={}", spec.join(", "))).body(()).unwrap();
                let resp = http_serve::serve(crf2, &req);
                status = resp.status().as_u16();
                ctype = resp.headers().get("content-type").map(|v| v.as_bytes().to_vec());
                let mut body: std::pin::Pin<Box<SimBody>> = Box::pin(resp.into_body());
                for _ in 0..200_000 {
                    match http_body::Body::poll_frame(body.as_mut(), &mut cx) {
                        Poll::Ready(Some(Ok(f))) => {
                            let mut d = f.into_data().map_err(|_| "trailers".to_string())?;
                            let n = d.remaining();
                            out.extend_from_slice(&d.copy_to_bytes(n));
                        }
                        Poll::Ready(Some(Err(_))) => {
                            failed = true;
                            break;
                        }
                        Poll::Ready(None) => {
                            clean = true;
                            break;
                        }
                        Poll::Pending if crate::a_drain::took_wake(&wflag) => continue,
                        Poll::Pending => return Err("Pending".into()),
                    }
                }
            }
            Ok((out, clean, failed, status, ctype))
        });
        let (out, clean, failed, status, ctype) = match r {
            Err(p) => return violation(prop, "panic", format!("{p}; {desc}")),
            Ok(Err(e)) => return violation(prop, "sequence-step", format!("{e}; {desc}")),
            Ok(Ok(v)) => v,
        };
        ctx.ev("step", out.len() as u64, clean as u64 | (failed as u64) << 1 | (status as u64) << 8);
        history.push(format!("{} {ranges:?} -> {} bytes, clean={clean}, failed={failed}", ["get_range", "serve", "serve-multi"][kind as usize], out.len()));
        let is_multi = status == 206 && ctype.as_ref().map(|c| c.starts_with(b"multipart/")).unwrap_or(false);
        // What was actually asked of the file: serve() may prefer a complete 200.
        let intact = if kind != 0 && status == 200 { len <= cur_len } else { intact };
        if intact {
            if !clean || failed {
                return violation(prop, "sequence-stream-failed", format!("the file still holds every requested byte but the stream did not end cleanly; {desc}"));
            }
            if is_multi {
                let b = crate::mpart::boundary_of(ctype.as_ref().unwrap()).map_err(|e| Violation { prop, oracle: "sequence-multipart", msg: e })?;
                let segs = vec![crate::simdata::Seg::Lit(out.clone())];
                match crate::mpart::parse(&segs, seed, &b) {
                    Err(e) => return violation(prop, "sequence-wrong-bytes", format!("multipart body does not hold the file's bytes: {e}; {desc}")),
                    Ok(parts) => {
                        let got: Vec<(u64, u64)> = parts.iter().map(|p| (p.a, p.b + 1)).collect();
                        if got != ranges {
                            return violation(prop, "sequence-wrong-parts", format!("parts {got:?}; {desc}"));
                        }
                    }
                }
            } else {
                // One contiguous stretch: the single range, or the whole file when serve()
                // preferred a complete 200.
                let (a, b) = if kind != 0 && status == 200 { (0, len) } else { ranges[0] };
                let expected: Vec<u8> = (a..b).map(|i| ebyte(seed, i)).collect();
                if kind != 0 && !(status == 206 || status == 200) {
                    return violation(prop, "unexpected-status", format!("status {status}; {desc}"));
                }
                if out != expected {
                    let eq = out.iter().zip(&expected).take_while(|(x, y)| x == y).count();
                    return violation(prop, "sequence-wrong-bytes", format!("delivered {} bytes, expected {} (first difference at {eq}); {desc}", out.len(), expected.len()));
                }
            }
        } else {
            // Truncated below a requested range end: the stream must fail, never end cleanly.
            if clean {
                return violation(prop, "sequence-stale-success", format!("the file was truncated below the requested range but the stream ended cleanly with {} bytes; {desc}", out.len()));
            }
        }
    }
    ctx.stats.bump(if c02 { "c02_file_entity_sequences_judged" } else { "c18_sequences_judged" });
    if ctx.wants_sample() {
        ctx.sample = Some(json!({"sequence": history}));
    }
    Ok(RunOut { sig, nontrivial: true })
}
