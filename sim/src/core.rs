//! Runner, shrinker, replay files and evidence: shared by all engines.

use crate::tape::{hash_str, mix, Tape};
use serde_json::{json, Value};
use std::collections::{BTreeMap, BTreeSet};
use std::panic::{catch_unwind, AssertUnwindSafe};
use std::sync::atomic::{AtomicBool, AtomicU64, Ordering};
use std::sync::{Arc, Mutex};
use std::time::Instant;

#[derive(Clone, Debug, PartialEq, Eq)]
pub struct Violation {
    pub prop: &'static str,
    pub oracle: &'static str,
    pub msg: String,
}

pub fn violation<T>(prop: &'static str, oracle: &'static str, msg: String) -> Result<T, Violation> {
    Err(Violation { prop, oracle, msg })
}

/// What a finished (violation-free) run reports about itself.
pub struct RunOut {
    /// Abstract shape of the run; distinct values are counted as distinct cases.
    pub sig: u64,
    /// Whether the run exercised the focused property by the engine's stated rule.
    pub nontrivial: bool,
}

#[derive(Default)]
pub struct Stats {
    pub counters: BTreeMap<&'static str, u64>,
    pub sigs: BTreeSet<u64>,
    pub grid: BTreeSet<String>,
    pub samples: Vec<(u64, Value)>,
    pub evaluations: u64,
    pub nontrivial_runs: u64,
    pub sim_time_ns: u128,
    pub tape_len_total: u64,
    /// Hits of open known findings (id -> count); such hits do not end the run.
    pub known_hits: BTreeMap<String, u64>,
}

impl Stats {
    pub fn bump(&mut self, k: &'static str) {
        *self.counters.entry(k).or_insert(0) += 1;
    }
    pub fn add(&mut self, k: &'static str, n: u64) {
        *self.counters.entry(k).or_insert(0) += n;
    }
    pub fn merge_pub(&mut self, o: Stats) {
        self.merge(o)
    }
    fn merge(&mut self, o: Stats) {
        for (k, v) in o.counters {
            *self.counters.entry(k).or_insert(0) += v;
        }
        self.sigs.extend(o.sigs);
        self.grid.extend(o.grid);
        self.samples.extend(o.samples);
        self.samples.sort_by_key(|s| s.0);
        self.samples.truncate(MAX_SAMPLES);
        self.evaluations += o.evaluations;
        self.nontrivial_runs += o.nontrivial_runs;
        self.sim_time_ns += o.sim_time_ns;
        self.tape_len_total += o.tape_len_total;
        for (k, v) in o.known_hits {
            *self.known_hits.entry(k).or_insert(0) += v;
        }
    }
}

const MAX_SAMPLES: usize = 6;

/// Per-run context handed to an engine.
pub struct Ctx<'a> {
    pub tape: Tape,
    /// The property whose oracles are evaluated in this run.
    pub focus: &'static str,
    /// Workload bias chosen by the check definition.
    pub mode: u32,
    pub stats: &'a mut Stats,
    pub run_index: u64,
    /// Human-readable trace; only collected when replaying / reporting.
    pub trace: Option<Vec<String>>,
    /// Hash over every event of the run (always computed; used for determinism and replay).
    pub hash: u64,
    /// A sample description of this run, if the engine provides one (kept for low run indices).
    pub sample: Option<Value>,
    pub known: Arc<Vec<Known>>,
}

impl<'a> Ctx<'a> {
    /// Reports a violation unless it is a listed, still open known finding; then it is counted
    /// and the run goes on, so that any other violation is still found.
    pub fn report(&mut self, v: Violation) -> Result<(), Violation> {
        let known = self.known.clone();
        match known.iter().find(|k| k.property == v.prop && k.oracle == v.oracle && v.msg.contains(&k.contains)) {
            Some(k) => {
                *self.stats.known_hits.entry(k.id.clone()).or_insert(0) += 1;
                Ok(())
            }
            None => Err(v),
        }
    }
    pub fn ev(&mut self, tag: &'static str, a: u64, b: u64) {
        self.hash = mix(mix(mix(self.hash, hash_str(tag)), a), b);
        if let Some(t) = &mut self.trace {
            t.push(format!("{tag} {a} {b}"));
        }
    }
    pub fn note(&mut self, f: impl FnOnce() -> String) {
        if let Some(t) = &mut self.trace {
            t.push(f());
        }
    }
    pub fn tracing(&self) -> bool {
        self.trace.is_some()
    }
    pub fn wants_sample(&self) -> bool {
        self.run_index < 64 || self.trace.is_some()
    }
}

/// Thorough tier: engines use deeper bounds (longer programs, more chunks, more Pending).
pub static DEEP: AtomicBool = AtomicBool::new(false);
pub fn deep() -> bool {
    DEEP.load(Ordering::Relaxed)
}

pub type EngineFn = fn(&mut Ctx) -> Result<RunOut, Violation>;

#[derive(Clone, Copy)]
pub struct Engine {
    pub name: &'static str,
    pub run: EngineFn,
}

pub struct Part {
    pub engine: Engine,
    pub mode: u32,
    pub runs_quick: u64,
    pub runs_thorough: u64,
    pub what: &'static str,
}

pub struct Check {
    pub prop: &'static str,
    pub level: &'static str,
    pub parts: Vec<Part>,
    pub rule: &'static str,
    pub assumptions: Vec<&'static str>,
}

thread_local! {
    pub static LAST_PANIC: std::cell::RefCell<Option<String>> = const { std::cell::RefCell::new(None) };
    pub static QUIET_PANICS: std::cell::Cell<bool> = const { std::cell::Cell::new(false) };
}

pub fn install_panic_hook() {
    let default = std::panic::take_hook();
    std::panic::set_hook(Box::new(move |info| {
        let msg = {
            let p = info.payload();
            let s = if let Some(s) = p.downcast_ref::<&str>() {
                (*s).to_string()
            } else if let Some(s) = p.downcast_ref::<String>() {
                s.clone()
            } else {
                "<non-string panic>".to_string()
            };
            match info.location() {
                Some(l) => format!("{s} at {}:{}", l.file(), l.line()),
                None => s,
            }
        };
        let quiet = QUIET_PANICS.with(|q| q.get());
        LAST_PANIC.with(|l| *l.borrow_mut() = Some(msg));
        if !quiet {
            default(info);
        }
    }));
}

/// Runs `f`, turning a panic into its message. Panics are silent while inside.
pub fn catch<T>(f: impl FnOnce() -> T) -> Result<T, String> {
    let prev = QUIET_PANICS.with(|q| q.replace(true));
    let r = catch_unwind(AssertUnwindSafe(f));
    QUIET_PANICS.with(|q| q.set(prev));
    r.map_err(|_| {
        LAST_PANIC
            .with(|l| l.borrow_mut().take())
            .unwrap_or_else(|| "panic".into())
    })
}

fn panic_is_in_repo(msg: &str) -> bool {
    let repo = std::env::var("VERIF_REPO").unwrap_or_else(|_| "/repo".into());
    msg.contains(&format!(" at {repo}/src/"))
}

pub struct RunResult {
    pub outcome: Result<RunOut, Violation>,
    pub tape: Vec<u32>,
    pub hash: u64,
    pub trace: Option<Vec<String>>,
    pub sample: Option<Value>,
}

/// Executes one run of `engine` on `tape`. A panic that escapes the engine's own isolation is a
/// harness error, reported as such (never as a property violation).
pub fn exec(
    engine: Engine,
    focus: &'static str,
    mode: u32,
    tape: Tape,
    run_index: u64,
    stats: &mut Stats,
    trace: bool,
) -> Result<RunResult, String> {
    let mut ctx = Ctx {
        tape,
        focus,
        mode,
        stats,
        run_index,
        trace: if trace { Some(Vec::new()) } else { None },
        hash: 0x1234_5678_9abc_def0,
        sample: None,
        known: KNOWN.get_or_init(|| Arc::new(load_known())).clone(),
    };
    let outcome = match catch(|| (engine.run)(&mut ctx)) {
        Ok(o) => o,
        // A panic raised inside the code under test (its location is a file of the repository)
        // in a place where the engine does not isolate calls - scenario set-up, mostly - is that
        // code's failure in a scenario of the property's domain, not a harness fault.
        Err(p) if panic_is_in_repo(&p) => Err(Violation { prop: focus, oracle: "panic-in-code-under-test", msg: format!("engine {}: {p}", engine.name) }),
        Err(p) => return Err(format!("harness panic in engine {} run {}: {}", engine.name, run_index, p)),
    };
    Ok(RunResult {
        outcome,
        tape: std::mem::take(&mut ctx.tape.rec),
        hash: ctx.hash,
        trace: ctx.trace.take(),
        sample: ctx.sample.take(),
    })
}

pub struct Found {
    pub part: usize,
    pub run: u64,
    pub violation: Violation,
    pub tape: Vec<u32>,
}

pub struct PartReport {
    pub stats: Stats,
    pub runs: u64,
    pub wall_s: f64,
    pub hash_xor: u64,
    pub found: Option<Found>,
}

/// Progress slots the watchdog looks at: (run index + 1, start instant as millis since t0).
struct Slot {
    run: AtomicU64,
    started_ms: AtomicU64,
}

impl PartReport {
    pub fn stats_merge(&mut self, o: Stats) {
        self.stats.merge(o)
    }
}

pub fn run_part(
    check: &Check,
    part_idx: usize,
    tier_thorough: bool,
    seed: u64,
    workers: usize,
    runs_override: Option<u64>,
) -> Result<PartReport, String> {
    run_part_from(check, part_idx, tier_thorough, seed, workers, runs_override, 0)
}

pub fn run_part_from(
    check: &Check,
    part_idx: usize,
    tier_thorough: bool,
    seed: u64,
    workers: usize,
    runs_override: Option<u64>,
    first_run: u64,
) -> Result<PartReport, String> {
    let part = &check.parts[part_idx];
    let scale: f64 = std::env::var("VERIF_SCALE").ok().and_then(|v| v.parse().ok()).unwrap_or(1.0);
    let runs = runs_override.unwrap_or(((if tier_thorough { part.runs_thorough } else { part.runs_quick }) as f64 * scale).max(1.0) as u64);
    let t0 = Instant::now();
    let next = Arc::new(AtomicU64::new(first_run));
    // Lowest run index at which a violation was found (u64::MAX = none).
    let stop_at = Arc::new(AtomicU64::new(u64::MAX));
    let harness_err: Arc<Mutex<Option<String>>> = Arc::new(Mutex::new(None));
    let found: Arc<Mutex<Option<Found>>> = Arc::new(Mutex::new(None));
    let done = Arc::new(AtomicBool::new(false));
    let slots: Arc<Vec<Slot>> = Arc::new(
        (0..workers)
            .map(|_| Slot {
                run: AtomicU64::new(0),
                started_ms: AtomicU64::new(0),
            })
            .collect(),
    );
    let engine = part.engine;
    let focus = check.prop;
    let mode = part.mode;
    // Each part gets its own stream of seeds so that parts do not repeat each other.
    let part_seed = mix(seed, 0x9000 + part_idx as u64);

    let mut handles = Vec::new();
    for w in 0..workers {
        let next = next.clone();
        let stop_at = stop_at.clone();
        let harness_err = harness_err.clone();
        let found = found.clone();
        let slots = slots.clone();
        handles.push(
            std::thread::Builder::new()
                .name(format!("sim-worker-{w}"))
                .stack_size(16 << 20)
                .spawn(move || {
                    let mut stats = Stats::default();
                    let mut hash_xor = 0u64;
                    let mut n = 0u64;
                    loop {
                        let i = next.fetch_add(1, Ordering::Relaxed);
                        if i >= runs || i > stop_at.load(Ordering::Relaxed) {
                            break;
                        }
                        slots[w]
                            .started_ms
                            .store(t0.elapsed().as_millis() as u64, Ordering::Relaxed);
                        slots[w].run.store(i + 1, Ordering::Relaxed);
                        let tape = Tape::search(part_seed, i);
                        let r = exec(engine, focus, mode, tape, i, &mut stats, false);
                        slots[w].run.store(0, Ordering::Relaxed);
                        match r {
                            Err(e) => {
                                let mut h = harness_err.lock().unwrap();
                                if h.is_none() {
                                    *h = Some(e);
                                }
                                stop_at.store(0, Ordering::Relaxed);
                                break;
                            }
                            Ok(rr) => {
                                n += 1;
                                stats.evaluations += 1;
                                stats.tape_len_total += rr.tape.len() as u64;
                                hash_xor ^= mix(rr.hash, i);
                                match rr.outcome {
                                    Ok(out) => {
                                        if out.nontrivial {
                                            stats.nontrivial_runs += 1;
                                            stats.sigs.insert(out.sig);
                                        }
                                        if let Some(s) = rr.sample {
                                            if stats.samples.len() < MAX_SAMPLES
                                                || stats.samples.last().map(|l| l.0 > i) == Some(true)
                                            {
                                                stats.samples.push((i, s));
                                                stats.samples.sort_by_key(|s| s.0);
                                                stats.samples.truncate(MAX_SAMPLES);
                                            }
                                        }
                                    }
                                    Err(v) => {
                                        stop_at.fetch_min(i, Ordering::Relaxed);
                                        let mut f = found.lock().unwrap();
                                        if f.as_ref().map(|f| f.run > i).unwrap_or(true) {
                                            *f = Some(Found {
                                                part: part_idx,
                                                run: i,
                                                violation: v,
                                                tape: rr.tape,
                                            });
                                        }
                                    }
                                }
                            }
                        }
                    }
                    (stats, hash_xor, n)
                })
                .map_err(|e| format!("spawn: {e}"))?,
        );
    }

    // Watchdog: a run that does not return (an endless loop inside one poll) is reported with a
    // seed-mode replay file, then the process exits; there is no way to unwind a stuck thread.
    let hang_limit_ms: u64 = std::env::var("VERIF_HANG_MS")
        .ok()
        .and_then(|v| v.parse().ok())
        .unwrap_or(20_000);
    let wd = {
        let slots = slots.clone();
        let done = done.clone();
        let prop = check.prop;
        let ename = engine.name;
        std::thread::spawn(move || {
            while !done.load(Ordering::Relaxed) {
                std::thread::sleep(std::time::Duration::from_millis(200));
                let now = t0.elapsed().as_millis() as u64;
                for s in slots.iter() {
                    let r = s.run.load(Ordering::Relaxed);
                    let st = s.started_ms.load(Ordering::Relaxed);
                    if r != 0 && now.saturating_sub(st) > hang_limit_ms {
                        // Double-check that the same run is still in flight.
                        if s.run.load(Ordering::Relaxed) == r {
                            let path = write_replay(&json!({
                                "property": prop, "oracle": "hang", "engine": ename, "mode": mode,
                                "seed": part_seed, "run": r - 1, "tape": Value::Null,
                                "message": format!("run did not finish within {hang_limit_ms} ms of wall clock (endless loop inside the code under test)"),
                            }), prop, part_seed, r - 1);
                            println!("VIOLATION property={prop} replay={path}");
                            std::process::exit(1);
                        }
                    }
                }
            }
        })
    };

    let mut stats = Stats::default();
    let mut hash_xor = 0u64;
    let mut total = 0u64;
    for h in handles {
        let (s, hx, n) = h.join().map_err(|_| "worker thread died".to_string())?;
        stats.merge(s);
        hash_xor ^= hx;
        total += n;
    }
    done.store(true, Ordering::Relaxed);
    let _ = wd.join();
    if let Some(e) = harness_err.lock().unwrap().take() {
        return Err(e);
    }
    let found = found.lock().unwrap().take();
    Ok(PartReport {
        stats,
        runs: total,
        wall_s: t0.elapsed().as_secs_f64(),
        hash_xor,
        found,
    })
}

/// Replays a tape and returns the violation (if any) with hash and trace.
pub fn replay_tape(
    engine: Engine,
    focus: &'static str,
    mode: u32,
    tape: Vec<u32>,
    trace: bool,
) -> Result<RunResult, String> {
    let mut scratch = Stats::default();
    exec(engine, focus, mode, Tape::replay(tape), u64::MAX, &mut scratch, trace)
}

/// Hypothesis-style internal shrinking of a failing tape: keep a candidate iff replaying it
/// yields a violation with the same (property, oracle).
pub fn shrink(
    engine: Engine,
    focus: &'static str,
    mode: u32,
    tape: Vec<u32>,
    target: (&'static str, &'static str),
    budget_s: f64,
) -> (Vec<u32>, u64) {
    let t0 = Instant::now();
    let mut attempts = 0u64;
    let fails = |cand: &Vec<u32>, attempts: &mut u64| -> Option<Vec<u32>> {
        *attempts += 1;
        match replay_tape(engine, focus, mode, cand.clone(), false) {
            Ok(rr) => match rr.outcome {
                Err(v) if (v.prop, v.oracle) == target => Some(rr.tape),
                _ => None,
            },
            Err(_) => None,
        }
    };
    // Canonicalise (the recorded tape of a replay is what was actually consumed).
    let mut best = match fails(&tape, &mut attempts) {
        Some(t) => t,
        None => return (tape, attempts),
    };
    let out_of_time = |t0: &Instant| t0.elapsed().as_secs_f64() > budget_s;
    let mut improved = true;
    while improved && !out_of_time(&t0) {
        improved = false;
        // Pass 1: delete spans (large to small).
        let mut span = (best.len() / 2).max(1);
        while span >= 1 && !out_of_time(&t0) {
            let mut i = 0;
            while i + span <= best.len() && !out_of_time(&t0) {
                let mut cand = best.clone();
                cand.drain(i..i + span);
                if let Some(t) = fails(&cand, &mut attempts) {
                    if t.len() < best.len() || t < best {
                        best = t;
                        improved = true;
                        continue;
                    }
                }
                i += span.max(1);
            }
            if span == 1 {
                break;
            }
            span /= 2;
        }
        // Pass 2: zero spans.
        let mut span = (best.len() / 2).max(1);
        while span >= 1 && !out_of_time(&t0) {
            let mut i = 0;
            while i < best.len() && !out_of_time(&t0) {
                let end = (i + span).min(best.len());
                if best[i..end].iter().any(|&v| v != 0) {
                    let mut cand = best.clone();
                    for v in &mut cand[i..end] {
                        *v = 0;
                    }
                    if let Some(t) = fails(&cand, &mut attempts) {
                        if t.len() < best.len() || (t.len() == best.len() && t < best) {
                            best = t;
                            improved = true;
                        }
                    }
                }
                i += span;
            }
            if span == 1 {
                break;
            }
            span /= 2;
        }
        // Pass 3: lower single values (halve, decrement).
        let mut i = 0;
        while i < best.len() && !out_of_time(&t0) {
            let v = best[i];
            if v > 0 {
                for nv in [v / 2, v - 1] {
                    if nv >= best[i] {
                        continue;
                    }
                    let mut cand = best.clone();
                    cand[i] = nv;
                    if let Some(t) = fails(&cand, &mut attempts) {
                        if t.len() < best.len() || (t.len() == best.len() && t < best) {
                            best = t;
                            improved = true;
                            break;
                        }
                    }
                }
            }
            i += 1;
        }
    }
    // Trailing zeros are implicit.
    while best.last() == Some(&0) {
        best.pop();
    }
    (best, attempts)
}

pub fn verif_dir() -> String {
    std::env::var("VERIF_DIR").unwrap_or_else(|_| "/verif".to_string())
}

pub fn repo_head() -> String {
    let out = std::process::Command::new("git")
        .args(["-C", "/repo", "rev-parse", "--short", "HEAD"])
        .output();
    let head = out
        .ok()
        .map(|o| String::from_utf8_lossy(&o.stdout).trim().to_string())
        .unwrap_or_default();
    let dirty = std::process::Command::new("git")
        .args(["-C", "/repo", "status", "--porcelain", "--untracked-files=no"])
        .output()
        .ok()
        .map(|o| !o.stdout.is_empty())
        .unwrap_or(false);
    format!("{head}{}", if dirty { "+dirty" } else { "" })
}

pub fn write_replay(v: &Value, prop: &str, seed: u64, run: u64) -> String {
    let dir = format!("{}/replays", verif_dir());
    let _ = std::fs::create_dir_all(&dir);
    let h = hash_str(&v.to_string()) & 0xffff_ffff;
    let path = format!("{dir}/{prop}-{seed}-{run}-{h:08x}.json");
    let _ = std::fs::write(&path, serde_json::to_string_pretty(v).unwrap());
    path
}

pub fn write_evidence(prop: &str, v: &Value) -> Result<(), String> {
    let dir = std::env::var("VERIF_EVIDENCE_DIR").unwrap_or_else(|_| format!("{}/evidence", verif_dir()));
    std::fs::create_dir_all(&dir).map_err(|e| e.to_string())?;
    let path = format!("{dir}/{prop}{}.json", std::env::var("VERIF_EVIDENCE_SUFFIX").unwrap_or_default());
    let tmp = format!("{path}.tmp");
    std::fs::write(&tmp, serde_json::to_string_pretty(v).unwrap()).map_err(|e| e.to_string())?;
    std::fs::rename(&tmp, &path).map_err(|e| e.to_string())
}

/// Known findings: `/verif/known_findings.json`. Only entries with status "open" suppress
/// anything; "fixed" entries are documentation and suppress nothing.
pub static KNOWN: std::sync::OnceLock<Arc<Vec<Known>>> = std::sync::OnceLock::new();

pub struct Known {
    pub id: String,
    pub property: String,
    pub oracle: String,
    pub contains: String,
    pub what: String,
}

pub fn load_known() -> Vec<Known> {
    let path = format!("{}/known_findings.json", verif_dir());
    let Ok(s) = std::fs::read_to_string(path) else {
        return Vec::new();
    };
    let Ok(v) = serde_json::from_str::<Value>(&s) else {
        return Vec::new();
    };
    let mut out = Vec::new();
    if let Some(a) = v.get("findings").and_then(|f| f.as_array()) {
        for e in a {
            if e.get("status").and_then(|s| s.as_str()) != Some("open") {
                continue;
            }
            out.push(Known {
                id: e["id"].as_str().unwrap_or("?").to_string(),
                property: e["property"].as_str().unwrap_or("").to_string(),
                oracle: e["oracle"].as_str().unwrap_or("").to_string(),
                contains: e["message_contains"].as_str().unwrap_or("").to_string(),
                what: e["what"].as_str().unwrap_or("").to_string(),
            });
        }
    }
    out
}
