//! Data and error types the simulated entity hands to http-serve, and the segment algebra the
//! oracles use to decide body identity without materialising (possibly 2^64-byte) entities.

use bytes::Buf;

use crate::tape::mix;

/// Position-dependent entity content with no period: byte i of the entity with content seed s.
pub fn ebyte(seed: u64, i: u64) -> u8 {
    (mix(seed ^ 0xA5A5_5A5A_DEAD_BEEF, i) >> 24) as u8
}

#[derive(Debug, Clone)]
pub enum SimError {
    /// Injected by the simulated entity (fault id).
    Injected(u32),
    /// Created by http-serve itself through `From<BoxError>` (too short / too long).
    FromServe(String),
}

impl From<http_serve::BoxError> for SimError {
    fn from(e: http_serve::BoxError) -> Self {
        SimError::FromServe(e.to_string())
    }
}

impl std::fmt::Display for SimError {
    fn fmt(&self, f: &mut std::fmt::Formatter<'_>) -> std::fmt::Result {
        write!(f, "{self:?}")
    }
}

impl std::error::Error for SimError {}

const WIN: usize = 8;

/// A `Buf` that is either literal bytes (what http-serve creates through `From`) or a *virtual*
/// slice of the entity: `remaining()` is its true length, `chunk()` a small real window.
#[derive(Clone)]
pub enum SimData {
    Lit { data: Vec<u8>, pos: usize },
    Static { data: &'static [u8], pos: usize },
    Ent { seed: u64, off: u64, len: usize, win: [u8; WIN] },
}

fn window(seed: u64, off: u64) -> [u8; WIN] {
    let mut w = [0u8; WIN];
    for (i, b) in w.iter_mut().enumerate() {
        *b = ebyte(seed, off.wrapping_add(i as u64));
    }
    w
}

thread_local! {
    pub static MATERIALISE: std::cell::Cell<bool> = const { std::cell::Cell::new(false) };
}

impl SimData {
    pub fn ent(seed: u64, off: u64, len: u64) -> SimData {
        // Behind real hyper (engine F) entity data is materialised: hyper's queue of buffers asks
        // every buffer for *all* its slices at once (`chunks_vectored`), which a virtual window
        // cannot offer. Contiguous literal bytes are the data type applications use there.
        if MATERIALISE.with(|m| m.get()) && len <= (1 << 20) {
            return SimData::Lit { data: (0..len).map(|i| ebyte(seed, off.wrapping_add(i))).collect(), pos: 0 };
        }
        SimData::Ent {
            seed,
            off,
            len: usize::try_from(len).expect("64-bit usize"),
            win: window(seed, off),
        }
    }
}

impl From<Vec<u8>> for SimData {
    fn from(data: Vec<u8>) -> Self {
        SimData::Lit { data, pos: 0 }
    }
}

impl From<&'static [u8]> for SimData {
    fn from(data: &'static [u8]) -> Self {
        SimData::Static { data, pos: 0 }
    }
}

impl Buf for SimData {
    fn remaining(&self) -> usize {
        match self {
            SimData::Lit { data, pos } => data.len() - pos,
            SimData::Static { data, pos } => data.len() - pos,
            SimData::Ent { len, .. } => *len,
        }
    }

    fn chunk(&self) -> &[u8] {
        match self {
            SimData::Lit { data, pos } => &data[*pos..],
            SimData::Static { data, pos } => &data[*pos..],
            SimData::Ent { len, win, .. } => &win[..(*len).min(WIN)],
        }
    }

    fn advance(&mut self, cnt: usize) {
        match self {
            SimData::Lit { data, pos } => {
                assert!(cnt <= data.len() - *pos);
                *pos += cnt
            }
            SimData::Static { data, pos } => {
                assert!(cnt <= data.len() - *pos);
                *pos += cnt
            }
            SimData::Ent { seed, off, len, win } => {
                assert!(cnt <= *len);
                *off = off.wrapping_add(cnt as u64);
                *len -= cnt;
                *win = window(*seed, *off);
            }
        }
    }
}

/// A stretch of delivered (or expected) body.
#[derive(Clone, Debug, PartialEq, Eq)]
pub enum Seg {
    Ent { off: u64, len: u64 },
    Lit(Vec<u8>),
}

impl Seg {
    pub fn len(&self) -> u64 {
        match self {
            Seg::Ent { len, .. } => *len,
            Seg::Lit(v) => v.len() as u64,
        }
    }
}

/// Appends with coalescing of adjacent entity stretches / literals.
pub fn push_seg(v: &mut Vec<Seg>, s: Seg) {
    if s.len() == 0 {
        return;
    }
    match (v.last_mut(), s) {
        (Some(Seg::Ent { off, len }), Seg::Ent { off: o2, len: l2 })
            if off.checked_add(*len) == Some(o2) && len.checked_add(l2).is_some() =>
        {
            *len += l2;
        }
        (Some(Seg::Lit(a)), Seg::Lit(b)) => a.extend_from_slice(&b),
        (_, s) => v.push(s),
    }
}

pub fn data_to_seg(d: &SimData) -> Seg {
    match d {
        SimData::Lit { data, pos } => Seg::Lit(data[*pos..].to_vec()),
        SimData::Static { data, pos } => Seg::Lit(data[*pos..].to_vec()),
        SimData::Ent { off, len, .. } => Seg::Ent {
            off: *off,
            len: *len as u64,
        },
    }
}

pub fn segs_total(v: &[Seg]) -> u128 {
    v.iter().map(|s| s.len() as u128).sum()
}

/// Cursor over a segment list; the multipart parser and the identity checks read through it.
pub struct Cur<'a> {
    segs: &'a [Seg],
    i: usize,
    o: u64,
    seed: u64,
    pub pos: u128,
}

impl<'a> Cur<'a> {
    pub fn new(segs: &'a [Seg], seed: u64) -> Cur<'a> {
        let mut c = Cur {
            segs,
            i: 0,
            o: 0,
            seed,
            pos: 0,
        };
        c.norm();
        c
    }

    fn norm(&mut self) {
        while self.i < self.segs.len() && self.o >= self.segs[self.i].len() {
            self.i += 1;
            self.o = 0;
        }
    }

    pub fn at_end(&self) -> bool {
        self.i >= self.segs.len()
    }

    pub fn peek(&self) -> Option<u8> {
        match self.segs.get(self.i)? {
            Seg::Lit(v) => Some(v[self.o as usize]),
            Seg::Ent { off, .. } => Some(ebyte(self.seed, off.wrapping_add(self.o))),
        }
    }

    pub fn next(&mut self) -> Option<u8> {
        let b = self.peek()?;
        self.o += 1;
        self.pos += 1;
        self.norm();
        Some(b)
    }

    /// Consumes `lit` if the upcoming bytes equal it.
    pub fn eat(&mut self, lit: &[u8]) -> bool {
        let save = (self.i, self.o, self.pos);
        for &b in lit {
            if self.next() != Some(b) {
                (self.i, self.o, self.pos) = save;
                return false;
            }
        }
        true
    }

    /// Consumes exactly `len` bytes which must be entity bytes `off..off+len`: by identity for
    /// virtual stretches, by value for literal bytes.
    pub fn take_entity(&mut self, mut off: u64, mut len: u64) -> Result<(), String> {
        while len > 0 {
            let Some(seg) = self.segs.get(self.i) else {
                return Err(format!("body ends {len} bytes before the end of the range"));
            };
            match seg {
                Seg::Ent { off: so, len: sl } => {
                    let have = sl - self.o;
                    let here = so.wrapping_add(self.o);
                    if here != off {
                        return Err(format!(
                            "expected entity byte {off} but the body has entity byte {here}"
                        ));
                    }
                    let n = have.min(len);
                    self.o += n;
                    self.pos += n as u128;
                    off = off.wrapping_add(n);
                    len -= n;
                }
                Seg::Lit(v) => {
                    let b = v[self.o as usize];
                    if b != ebyte(self.seed, off) {
                        return Err(format!(
                            "expected entity byte {off} but the body has literal byte {b:#04x}"
                        ));
                    }
                    self.o += 1;
                    self.pos += 1;
                    off = off.wrapping_add(1);
                    len -= 1;
                }
            }
            self.norm();
        }
        Ok(())
    }

    /// Describes what follows (for messages).
    pub fn describe_rest(&self) -> String {
        let mut out = String::new();
        let mut c = Cur {
            segs: self.segs,
            i: self.i,
            o: self.o,
            seed: self.seed,
            pos: self.pos,
        };
        for _ in 0..48 {
            match c.segs.get(c.i) {
                None => break,
                Some(Seg::Ent { off, len }) => {
                    out.push_str(&format!("<entity {}+{}>", off.wrapping_add(c.o), len - c.o));
                    c.i += 1;
                    c.o = 0;
                }
                Some(Seg::Lit(_)) => {
                    let b = c.next().unwrap();
                    out.push_str(&(b as char).escape_default().to_string());
                }
            }
        }
        out
    }
}

pub fn describe_segs(v: &[Seg]) -> String {
    let mut out = String::new();
    for s in v.iter().take(12) {
        match s {
            Seg::Ent { off, len } => out.push_str(&format!("<entity {off}+{len}>")),
            Seg::Lit(b) => {
                out.push('"');
                for &c in b.iter().take(120) {
                    out.push_str(&(c as char).escape_default().to_string());
                }
                out.push('"');
            }
        }
    }
    if v.len() > 12 {
        out.push_str("...");
    }
    out
}
