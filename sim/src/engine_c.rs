//! Engine C — thread-sim: the real BodyWriter on a producer thread and the real Body polled on
//! a consumer thread, interleaved at lock/wake granularity by the baton scheduler.
//! Decides C10; contributes the schedule part of C11 and C12.

use crate::a_drain::{DrainLog, Sample, SimBody, Step};
use crate::core::{catch, violation, Ctx, RunOut, Violation};
use crate::engine_a::check_hints;
use crate::inflate::{gunzip_prefix, GzState};
use crate::sched::{Sched, Status};
use crate::simdata::{ebyte, SimData, SimError};
use crate::tape::{mix, Tape};
use bytes::Buf;
use http_body::Body as _;
use serde_json::json;
use std::io::Write;
use std::sync::{Arc, Mutex};
use std::task::{Context, Poll, Wake, Waker};
use std::time::Duration;

struct SimProducerPanic;

#[derive(Clone, Copy, Debug, PartialEq, Eq)]
enum POp {
    Write(usize),
    Flush,
    WaitDelivered,
    Abort,
    Drop,
    /// The producer panics while it owns the writer: the writer is dropped by unwinding.
    Panic,
}

struct CWaker {
    sched: Arc<Sched>,
    gen: u64,
}

impl Wake for CWaker {
    fn wake(self: Arc<Self>) {
        self.sched.on_wake(self.gen);
    }
    fn wake_by_ref(self: &Arc<Self>) {
        self.sched.on_wake(self.gen);
    }
}


use crate::sched::{with_helpers, Job, HELPERS};

#[derive(Default)]
struct ProducerOut {
    accepted: Vec<u8>,
    /// accepted.len() at the last successful flush (identity coding: surely handed over).
    flushed: usize,
    ops: Vec<(String, u64, u64)>, // (description, seq at invocation, seq at return)
    aborted_done_seq: Option<u64>,
    dropped_done_seq: Option<u64>,
    fail_after_body_drop_missing: Option<String>,
    write_after_dead_ok: Option<String>,
}

#[derive(Default)]
struct ConsumerOut {
    log: DrainLog,
    sample_seqs: Vec<u64>,
    delivered: Vec<u8>,
    pending_after_writer_gone: Option<usize>,
    body_dropped_seq: Option<u64>,
    polls_after_writer_gone: u64,
    parked: u64,
    spurious: u64,
    fresh_wakers: u64,
}

pub fn run(ctx: &mut Ctx) -> Result<RunOut, Violation> {
    let focus = ctx.focus;
    let t = &mut ctx.tape;
    let chunk = if crate::core::deep() { [1usize, 2, 3, 4, 7, 16, 5, 64, 4096][t.draw(9) as usize] } else { [1usize, 2, 3, 4, 7, 16][t.draw(6) as usize] };
    let chunk = if t.chance(1, 10) { crate::dict::pick_in(t.draw(1 << 16), 1, 4096).unwrap_or(chunk as u64) as usize } else { chunk };
    let gzip = match focus {
        "C08" => false,
        "C09" => true,
        "C10" => t.chance(1, 8),
        _ => t.chance(1, 4),
    };
    let level = 1 + t.draw(9);
    let seed = t.draw(u32::MAX) as u64;
    // Producer program: up to 6 operations.
    let n_ops = 1 + t.draw(if crate::core::deep() { 10 } else { 6 });
    let mut prog = Vec::new();
    let allow_abort = !matches!(focus, "C08" | "C09");
    for _ in 0..n_ops {
        let op = match t.draw(10) {
            0..=3 => POp::Write(match t.draw(5) {
                0 => 1,
                1 => chunk,
                2 => chunk + 1,
                3 => 0,
                _ => 1 + t.draw(3 * chunk as u32) as usize,
            }),
            4..=6 => POp::Flush,
            7 => POp::WaitDelivered,
            8 if allow_abort => POp::Abort,
            8 => POp::Flush,
            9 if t.chance(1, 3) => POp::Panic,
            _ => POp::Drop,
        };
        prog.push(op);
        if matches!(op, POp::Abort | POp::Drop | POp::Panic) {
            break;
        }
    }
    // Consumer policy, pre-drawn so that the threads only need the tape for scheduling.
    let fresh: Vec<bool> = (0..48).map(|_| t.chance(1, 3)).collect();
    let spurious_at: Vec<bool> = (0..48).map(|_| t.chance(1, 6)).collect();
    let spurious_budget = t.draw(if crate::core::deep() { 5 } else { 3 }) as u64;
    let overpoll = if focus == "C20" { 1 + t.draw(4) } else { t.draw(3) };
    let body_drop_at: Option<u32> = if focus == "C11" && t.chance(1, 2) { Some(t.draw(6)) } else { None };
    // A backlog: before the consumer has polled once, the producer has already flushed K small
    // pieces (a slow client behind a handler that flushes after every event). K comes from the
    // source dictionary, the larger candidates as often as the smaller ones, so that a bound on
    // the queue added by a change is reached and crossed while both threads are still running.
    let backlog: usize = if t.chance(1, 16) {
        let d = t.draw(1 << 16);
        let k = if t.chance(1, 2) { crate::dict::pick_in(d, 300, 1100) } else { crate::dict::pick_in(d, 2, 299) };
        k.unwrap_or(2 + (d % 40) as u64) as usize
    } else {
        0
    };
    let backlog_piece = if t.chance(1, 2) { 1 } else { (chunk / 3).max(1) };
    // Half of the backlog runs go on as they began: the same small piece, flushed, a few more times.
    if backlog > 0 && t.chance(1, 2) {
        let m = 2 + t.draw(4);
        prog = (0..m).flat_map(|_| [POp::Write(backlog_piece), POp::Flush]).collect();
    }
    // (every sync flush of a gzip stream adds a dozen bytes: keep the number of frames bounded)
    let backlog = if gzip { backlog.min(60 * chunk) } else { backlog };
    let trace = ctx.tracing();

    // Build the pair on the controlling thread (no scheduler installed yet).
    let mut rb = http::Request::builder().method("GET").uri("/t");
    if gzip {
        rb = rb.header("accept-encoding", "gzip");
    }
    let req = rb.body(()).unwrap();
    let (resp, w) = http_serve::streaming_body(&req).with_chunk_size(chunk).with_gzip_level(level).build::<SimData, SimError>();
    let is_gzip = resp.headers().contains_key("content-encoding");
    let mut w = w.expect("GET has a writer");
    let body: std::pin::Pin<Box<SimBody>> = Box::pin(resp.into_body());

    let tape = std::mem::replace(&mut ctx.tape, Tape::replay(Vec::new()));
    let sched = Sched::new(tape, 2, trace);
    let pout = Arc::new(Mutex::new(ProducerOut::default()));
    if backlog > 0 {
        ctx.stats.bump("runs_with_a_backlog");
        ctx.stats.add("backlog_flushes", backlog as u64);
        let mut o = pout.lock().unwrap();
        for _ in 0..backlog {
            let p0 = o.accepted.len() as u64;
            let buf: Vec<u8> = (0..backlog_piece as u64).map(|i| ebyte(seed, p0 + i)).collect();
            if w.write_all(&buf).is_err() || w.flush().is_err() {
                if !matches!(focus, "C08" | "C09" | "C11") {
                    ctx.stats.bump("runs_cut_short_by_a_failing_backlog_(reported_by_C08)");
                    return Ok(RunOut { sig: 0, nontrivial: false });
                }
                return violation(focus_static(focus), "backlog-write-or-flush-failed", format!("chunk={chunk} gzip={is_gzip}: write_all({backlog_piece}) + flush failed on a live body after {} flushed pieces nobody had read yet", o.accepted.len() / backlog_piece));
            }
            o.accepted.extend_from_slice(&buf);
            o.flushed = o.accepted.len();
        }
    }
    let cout = Arc::new(Mutex::new(ConsumerOut::default()));

    // ---------------- producer thread
    let pjob: Job = {
        let sched = sched.clone();
        let pout = pout.clone();
        let prog = prog.clone();
        Box::new(move || {
                http_serve::verif::set_sched(Some(sched.clone() as Arc<dyn http_serve::verif::Sched>));
                sched.start_thread(0);
                let r = catch(|| {
                    let mut w = Some(w);
                    let mut dead = false;
                    let mut unflushed: Option<usize> = Some(0);
                    let mut since_flush = 0usize;
                    let mut ok_after_drop = 0usize;
                    for op in prog {
                        let seq0 = sched.note("op-begin", 0);
                        sched.yield_point("op", 0);
                        let body_gone_before = {
                            let st = sched.m.lock().unwrap();
                            st.consumer_done
                        };
                        let desc;
                        match op {
                            POp::Write(n) => {
                                let mut o = pout.lock().unwrap();
                                let p0 = o.accepted.len() as u64;
                                let buf: Vec<u8> = (0..n as u64).map(|i| ebyte(seed, p0 + i)).collect();
                                drop(o);
                                let Some(wr) = w.as_mut() else { break };
                                let r = wr.write(&buf);
                                o = pout.lock().unwrap();
                                match &r {
                                    Ok(k) => {
                                        o.accepted.extend_from_slice(&buf[..(*k).min(n)]);
                                        since_flush += *k;
                                        if body_gone_before {
                                            ok_after_drop += *k;
                                        }
                                        if dead && n > 0 {
                                            o.write_after_dead_ok = Some(format!("write({n}) succeeded after an earlier failure/abort"));
                                        }
                                        unflushed = match unflushed {
                                            Some(u) if u + k < chunk => Some(u + k),
                                            _ => None,
                                        };
                                    }
                                    Err(_) => {
                                        dead = true;
                                        unflushed = None;
                                    }
                                }
                                desc = format!("write({n}) -> {:?}", r.map_err(|e| e.to_string()));
                            }
                            POp::Flush => {
                                let Some(wr) = w.as_mut() else { break };
                                let surely = ok_after_drop > 0; // accepted by a write invoked after the drop
                                let _ = (since_flush, &unflushed, is_gzip);
                                let r = wr.flush();
                                let mut o = pout.lock().unwrap();
                                match &r {
                                    Ok(()) => {
                                        o.flushed = o.accepted.len();
                                        unflushed = Some(0);
                                        since_flush = 0;
                                        ok_after_drop = 0;
                                        if dead {
                                            o.write_after_dead_ok = Some("flush succeeded after an earlier failure/abort".into());
                                        }
                                        if body_gone_before && surely {
                                            o.fail_after_body_drop_missing = Some("a flush with bytes to hand over, invoked after the body had been dropped, returned Ok".into());
                                        }
                                    }
                                    Err(_) => {
                                        dead = true;
                                        unflushed = None;
                                    }
                                }
                                desc = format!("flush -> {:?}", r.map_err(|e| e.to_string()));
                            }
                            POp::WaitDelivered => {
                                // Everything accepted before the last successful flush must reach the
                                // consumer without any further producer action; for gzip the consumer
                                // reports its progress in *decoded* bytes.
                                // (Not beyond 30 000 gzip input bytes: that is the domain of the open
                                // known finding F6, flate2's incomplete sync flush.)
                                let target = {
                                    let o = pout.lock().unwrap();
                                    if is_gzip && o.accepted.len() >= 30_000 { 0 } else { o.flushed as u64 }
                                };
                                let ok = sched.block(Status::WaitDelivered(target), "wait-until-delivered", target);
                                desc = format!("wait-until-delivered({target}) -> {ok}");
                                if !ok {
                                    break;
                                }
                            }
                            POp::Abort => {
                                let Some(wr) = w.as_mut() else { break };
                                wr.abort(SimError::Injected(9));
                                dead = true;
                                let s = sched.note("abort-done", 0);
                                pout.lock().unwrap().aborted_done_seq = Some(s);
                                desc = "abort".to_string();
                            }
                            POp::Panic => {
                                sched.note("producer-panics", 0);
                                let s = sched.note("drop-done", 0);
                                {
                                    let mut o = pout.lock().unwrap();
                                    o.dropped_done_seq = Some(s);
                                    o.ops.push(("panic (writer dropped by unwinding)".into(), seq0, s));
                                }
                                std::panic::panic_any(SimProducerPanic);
                            }
                            POp::Drop => {
                                drop(w.take());
                                let s = sched.note("drop-done", 0);
                                pout.lock().unwrap().dropped_done_seq = Some(s);
                                desc = "drop(writer)".to_string();
                            }
                        }
                        let seq1 = sched.note("op-end", 0);
                        pout.lock().unwrap().ops.push((desc, seq0, seq1));
                    }
                    if w.is_some() {
                        drop(w.take());
                        let s = sched.note("drop-done", 0);
                        let mut o = pout.lock().unwrap();
                        if o.dropped_done_seq.is_none() {
                            o.dropped_done_seq = Some(s);
                        }
                        o.ops.push(("drop(writer) [end of program]".into(), s, s));
                    }
                });
                // The injected producer panic is part of the scenario, not a finding.
                sched.finish_thread(r.err().filter(|m| !m.contains("<non-string panic>")));
                http_serve::verif::set_sched(None);
                crate::sched::TID.with(|t| t.set(usize::MAX));
            })
    };

    // ---------------- consumer thread
    let cjob: Job = {
        let sched = sched.clone();
        let cout = cout.clone();
        Box::new(move || {
                http_serve::verif::set_sched(Some(sched.clone() as Arc<dyn http_serve::verif::Sched>));
                sched.start_thread(1);
                let r = catch(|| {
                    let mut body = Some(body);
                    let mut gen = 1u64;
                    let mut waker = Waker::from(Arc::new(CWaker { sched: sched.clone(), gen }));
                    let mut polls = 0usize;
                    let mut spurious_left = spurious_budget;
                    let mut extra_left = overpoll;
                    loop {
                        if polls >= 400 + backlog * (3 + (backlog_piece + 16) / chunk) {
                            cout.lock().unwrap().log.too_many_polls = true;
                            break;
                        }
                        if body_drop_at == Some(polls as u32) && cout.lock().unwrap().log.terminal.is_none() {
                            sched.yield_point("before-body-drop", 0);
                            drop(body.take());
                            let s = sched.note("body-dropped", 0);
                            cout.lock().unwrap().body_dropped_seq = Some(s);
                            break;
                        }
                        let b = body.as_mut().unwrap();
                        let (writer_gone_before, seq) = {
                            let st = sched.m.lock().unwrap();
                            (st.producer_done, st.seq)
                        };
                        let h = b.size_hint();
                        let eos = b.is_end_stream();
                        let sample = Sample { lower: h.lower(), upper: h.upper(), eos };
                        let after = cout.lock().unwrap().log.terminal.is_some();
                        if after {
                            if extra_left == 0 {
                                break;
                            }
                            extra_left -= 1;
                        }
                        if *fresh_get(&fresh, polls) {
                            gen += 1;
                            waker = Waker::from(Arc::new(CWaker { sched: sched.clone(), gen }));
                            cout.lock().unwrap().fresh_wakers += 1;
                        }
                        // Only a wake that lands after this poll has started counts for the park.
                        sched.m.lock().unwrap().woken.remove(&gen);
                        let mut cx = Context::from_waker(&waker);
                        let r = b.as_mut().poll_frame(&mut cx);
                        polls += 1;
                        let mut o = cout.lock().unwrap();
                        if writer_gone_before {
                            o.polls_after_writer_gone += 1;
                        }
                        let step = match r {
                            Poll::Pending => Step::Pending,
                            Poll::Ready(None) => Step::End,
                            Poll::Ready(Some(Err(e))) => Step::Err(format!("{e:?}")),
                            Poll::Ready(Some(Ok(f))) => match f.into_data() {
                                Ok(mut d) => {
                                    let n = d.remaining();
                                    if after {
                                        if n > 0 {
                                            o.log.data_after_terminal += 1;
                                        }
                                    } else {
                                        while d.has_remaining() {
                                            let c = d.chunk();
                                            let l = c.len();
                                            o.delivered.extend_from_slice(c);
                                            d.advance(l);
                                        }
                                        o.log.total += n as u128;
                                    }
                                    Step::Data(n as u64)
                                }
                                Err(_) => Step::Err("trailers".into()),
                            },
                        };
                        let idx = o.log.steps.len();
                        if o.log.initial.is_none() {
                            o.log.initial = Some(sample.clone());
                        }
                        o.log.steps.push((sample, step.clone()));
                        o.sample_seqs.push(seq);
                        let total = o.log.total as u64;
                        match step {
                            Step::Data(_) => {
                                let total = if is_gzip { gunzip_prefix(&o.delivered).0.len() as u64 } else { total };
                                drop(o);
                                sched.progress_delivered(total);
                                sched.note("frame", total);
                            }
                            Step::End | Step::Err(_) | Step::Panic(_) => {
                                if o.log.terminal.is_none() {
                                    o.log.terminal = Some(idx);
                                }
                                drop(o);
                                sched.note("terminal", 0);
                            }
                            Step::Pending => {
                                if after {
                                    continue;
                                }
                                if writer_gone_before && o.pending_after_writer_gone.is_none() {
                                    o.pending_after_writer_gone = Some(idx);
                                }
                                // Spurious re-poll instead of parking?
                                if spurious_left > 0 && *fresh_get(&spurious_at, polls) {
                                    spurious_left -= 1;
                                    o.spurious += 1;
                                    drop(o);
                                    sched.yield_point("spurious-repoll", 0);
                                    continue;
                                }
                                o.parked += 1;
                                drop(o);
                                // Park until the waker handed to the most recent poll fires.
                                if !sched.block(Status::Parked(gen), "park", gen) {
                                    break;
                                }
                            }
                        }
                    }
                    drop(body.take());
                });
                sched.finish_thread(r.err());
                http_serve::verif::set_sched(None);
                crate::sched::TID.with(|t| t.set(usize::MAX));
            })
    };

    let finished = with_helpers(|ph, ch| {
        ph.run(pjob);
        ch.run(cjob);
        let finished = sched.run_to_completion(Duration::from_secs(15));
        if finished {
            ph.wait();
            ch.wait();
        }
        finished
    });
    if !finished {
        // A helper is stuck inside the code under test: abandon the pair (the run is reported
        // as a hang); fresh helpers are created for the next run.
        HELPERS.with(|h| *h.borrow_mut() = None);
    }
    let mut st = sched.m.lock().unwrap();
    ctx.tape = st.tape.take().expect("tape comes back");
    let p = std::mem::take(&mut *pout.lock().unwrap());
    let c = std::mem::take(&mut *cout.lock().unwrap());
    ctx.hash = mix(ctx.hash, st.hash);
    ctx.ev("end", c.log.total as u64, p.accepted.len() as u64);
    if let Some(tr) = st.trace.take() {
        ctx.note(|| format!("config: chunk={chunk} gzip={is_gzip} level={level} program={prog:?} overpoll={overpoll} spurious_budget={spurious_budget} body_drop_at={body_drop_at:?}"));
        ctx.note(|| format!("schedule ({} events):\n    {}", tr.len(), tr.join("\n    ")));
        let steps: Vec<String> = c.log.steps.iter().map(|(s, x)| format!("[hint {}..{:?} eos={}] -> {:?}", s.lower, s.upper, s.eos, x)).collect();
        ctx.note(|| format!("consumer polls: {steps:#?}"));
        let ops = p.ops.clone();
        ctx.note(|| format!("producer ops: {ops:#?}"));
    }
    let stats = &mut *ctx.stats;
    stats.add("c_context_switches", st.switches);
    stats.add("c_scheduling_decisions", st.steps);
    stats.add("c_wakes", st.wakes_total);
    stats.add("c_wakes_while_consumer_parked", st.wakes_while_parked);
    stats.add("c_wakes_on_stale_waker", st.wakes_stale);
    stats.add("c_mutex_contended", st.contended);
    stats.add("c_consumer_parked", c.parked);
    stats.add("c_spurious_polls", c.spurious);
    stats.add("c_fresh_wakers", c.fresh_wakers);
    stats.add("polls", c.log.steps.len() as u64);
    if p.aborted_done_seq.is_some() { stats.bump("fault_abort"); }
    if c.body_dropped_seq.is_some() { stats.bump("fault_body_drop"); }
    let sig = mix(st.sig, chunk as u64 ^ (is_gzip as u64) << 8);
    let describe = |st: &crate::sched::St| {
        format!(
            "chunk={chunk} gzip={is_gzip} program={prog:?}; producer ops {:?}; consumer polls {:?}; scheduler: {:?}",
            p.ops.iter().map(|o| &o.0).collect::<Vec<_>>(),
            c.log.steps.iter().map(|s| &s.1).collect::<Vec<_>>(),
            st.deadlock
        )
    };
    if ctx.run_index < 64 || trace {
        ctx.sample = Some(json!({"config": format!("chunk={chunk} gzip={is_gzip}"), "program": format!("{prog:?}"), "producer_ops": p.ops.iter().map(|o| o.0.clone()).collect::<Vec<_>>(),
            "consumer_polls": c.log.steps.iter().map(|s| format!("{:?}", s.1)).collect::<Vec<_>>(), "context_switches": st.switches, "wakes": st.wakes_total}));
    }

    // Panics in either thread.
    if let Some(pn) = st.panics.first() {
        if focus == "C20" && c.log.terminal.is_none() {
            return Ok(RunOut { sig, nontrivial: false }); // not after a termination: C10/C11's business
        }
        let d = describe(&st);
        return violation(focus_static(focus), "panic", format!("{pn}; {d}"));
    }
    if !finished || st.deadlock.is_some() {
        let d = describe(&st);
        if st.deadlock.as_deref() == Some("wall-clock timeout") {
            return violation(focus_static(focus), "hang", d);
        }
        // A consumer parked while the producer is done (or waits for it) is a lost wake-up.
        return if focus == "C10" || focus == "C11" {
            violation(focus_static(focus), "lost-wakeup", d)
        } else if matches!(focus, "C08" | "C09") && p.aborted_done_seq.is_none() && c.body_dropped_seq.is_none() {
            // "...and the body then ends cleanly": it never did.
            violation(focus_static(focus), "no-clean-end", format!("the writer is gone but the consumer was left parked: {d}"))
        } else {
            Ok(RunOut { sig, nontrivial: false })
        };
    }
    drop(st);
    let st = sched.m.lock().unwrap();
    let clean = matches!(c.log.terminal.map(|i| &c.log.steps[i].1), Some(Step::End));
    let errored = matches!(c.log.terminal.map(|i| &c.log.steps[i].1), Some(Step::Err(_)));
    let decoded = |raw: &[u8]| -> (Vec<u8>, GzState) {
        if is_gzip {
            gunzip_prefix(raw)
        } else {
            (raw.to_vec(), GzState::Streaming)
        }
    };
    match focus {
        "C10" => {
            if c.log.too_many_polls {
                return violation("C10", "unbounded-polls", describe(&st));
            }
            if c.pending_after_writer_gone.is_some() {
                // Not wrong in itself (a body may wake itself); a Pending that is never followed
                // by a wake shows up as a lost wake-up, one that repeats as unbounded polls.
                ctx.stats.bump("c10_pending_after_writer_gone_(woken_later)");
            }
            // (with a backlog every queued chunk is one more legitimate poll after the writer went)
            let data_steps = c.log.steps.iter().filter(|(_, s)| matches!(s, Step::Data(_))).count();
            if c.polls_after_writer_gone as usize > if backlog == 0 { c.log.steps.len().min(64) + 8 } else { data_steps + 72 } {
                return violation("C10", "unbounded-polls", describe(&st));
            }
            if c.body_dropped_seq.is_none() {
                if c.log.terminal.is_none() {
                    return violation("C10", "no-terminal-event", describe(&st));
                }
                if p.aborted_done_seq.is_none() {
                    // Clean end expected; everything written (drop flushes) must have arrived.
                    if !clean {
                        return violation("C10", "no-clean-end", describe(&st));
                    }
                    let (dec, gs) = decoded(&c.delivered);
                    if is_gzip && gs != (GzState::Complete { trailing: 0 }) {
                        return violation("C10", "gzip-incomplete", format!("{gs:?}; {}", describe(&st)));
                    }
                    if dec != p.accepted {
                        return violation("C10", "delivered-differs-from-written", format!("accepted {} bytes, received {}; {}", p.accepted.len(), dec.len(), describe(&st)));
                    }
                } else if clean {
                    return violation("C10", "abort-ended-cleanly", describe(&st));
                }
            }
            // Bounded: once the writer is gone, at most (frames + terminal + extras) polls.
            ctx.stats.bump("c10_runs_judged");
            Ok(RunOut { sig, nontrivial: st.switches > 0 })
        }
        "C11" => {
            if let Some(m) = &p.write_after_dead_ok {
                return violation("C11", "op-succeeded-after-failure", format!("{m}; {}", describe(&st)));
            }
            if let Some(m) = &p.fail_after_body_drop_missing {
                return violation("C11", "writer-not-told-of-body-drop", format!("{m}; {}", describe(&st)));
            }
            if let Some(aseq) = p.aborted_done_seq {
                if c.body_dropped_seq.is_none() {
                    if clean {
                        return violation("C11", "abort-ended-cleanly", describe(&st));
                    }
                    if !errored {
                        return violation("C11", "abort-not-reported", describe(&st));
                    }
                    let term = c.log.terminal.unwrap();
                    for i in 0..=term {
                        // Samples taken after the abort completed and before the error arrived.
                        if c.sample_seqs[i] > aseq && c.log.steps[i].0.eos {
                            return violation("C11", "end-of-stream-claimed-while-error-pending", format!("before poll #{}; {}", i + 1, describe(&st)));
                        }
                    }
                    let (dec, gs) = decoded(&c.delivered);
                    if let GzState::Invalid(e) = gs {
                        return violation("C11", "abort-garbled-prefix", format!("{e}; {}", describe(&st)));
                    }
                    if !p.accepted.starts_with(&dec) {
                        return violation("C11", "abort-delivered-not-prefix", describe(&st));
                    }
                }
                ctx.stats.bump("c11_aborts_judged");
            }
            if c.body_dropped_seq.is_some() {
                ctx.stats.bump("c11_body_drops_judged");
            }
            Ok(RunOut { sig, nontrivial: p.aborted_done_seq.is_some() || c.body_dropped_seq.is_some() })
        }
        "C08" | "C09" => {
            let fsx = focus_static(focus);
            if c.body_dropped_seq.is_some() || p.aborted_done_seq.is_some() {
                return Ok(RunOut { sig, nontrivial: false });
            }
            if !clean {
                return violation(fsx, "no-clean-end", describe(&st));
            }
            let (dec, gs) = decoded(&c.delivered);
            if is_gzip && gs != (GzState::Complete { trailing: 0 }) {
                return violation(fsx, "not-one-gzip-member", format!("{gs:?}; {}", describe(&st)));
            }
            if dec != p.accepted {
                return violation(fsx, "delivered-differs-from-accepted", format!("accepted {} bytes, client decoded {}; {}", p.accepted.len(), dec.len(), describe(&st)));
            }
            if c.log.steps.iter().take(c.log.terminal.unwrap_or(0)).any(|s| s.1 == Step::Data(0)) {
                return violation(fsx, "empty-frame", describe(&st));
            }
            Ok(RunOut { sig, nontrivial: st.switches > 0 })
        }
        "C20" => {
            let Some(term) = c.log.terminal else { return Ok(RunOut { sig, nontrivial: false }) };
            for (k, (_, s)) in c.log.steps.iter().enumerate().skip(term + 1) {
                if let Step::Data(n) = s {
                    if *n > 0 {
                        return violation("C20", "data-after-termination", format!("poll #{} after the terminal event returned {n} bytes; {}", k - term, describe(&st)));
                    }
                }
            }
            let extra = c.log.steps.len() - term - 1;
            let kind = match &c.log.steps[term].1 { Step::End => "clean-end", _ => "abort" };
            ctx.stats.grid.insert(format!("streaming-threads|{kind}|extra={}", extra.min(4)));
            ctx.stats.add("c20_extra_polls", extra as u64);
            Ok(RunOut { sig: mix(sig, extra as u64), nontrivial: extra > 0 })
        }
        "C12" => {
            check_hints("C12", &c.log, clean, false)?;
            ctx.stats.add("c12_samples_checked", c.log.steps.len() as u64);
            Ok(RunOut { sig, nontrivial: c.log.steps.len() > 1 })
        }
        _ => Ok(RunOut { sig, nontrivial: false }),
    }
}

fn fresh_get(v: &[bool], i: usize) -> &bool {
    v.get(i).unwrap_or(&false)
}

fn focus_static(f: &str) -> &'static str {
    match f {
        "C08" => "C08",
        "C09" => "C09",
        "C10" => "C10",
        "C11" => "C11",
        "C20" => "C20",
        _ => "C12",
    }
}
