//! Independent, tolerant multipart/byteranges parser (RFC 2046 5.1.1 framing, RFC 7233 4.1
//! parts) working over a segment list, so that bodies with astronomically large parts can be
//! checked exactly. Shares no code with http-serve.

use crate::simdata::{Cur, Seg};

#[derive(Debug, Clone, PartialEq, Eq)]
pub struct Part {
    pub a: u64,
    pub b: u64,
    pub total: u64,
    /// Part headers other than Content-Range: (lower-cased name, value).
    pub headers: Vec<(String, Vec<u8>)>,
}

/// Extracts the boundary parameter from a `multipart/byteranges; boundary=...` value.
pub fn boundary_of(content_type: &[u8]) -> Result<Vec<u8>, String> {
    let s = String::from_utf8_lossy(content_type).to_string();
    let mut it = s.split(';');
    let mt = it.next().unwrap_or("").trim().to_ascii_lowercase();
    if mt != "multipart/byteranges" {
        return Err(format!("media type is {mt:?}, not multipart/byteranges"));
    }
    for p in it {
        let p = p.trim();
        if let Some((k, v)) = p.split_once('=') {
            if k.trim().eq_ignore_ascii_case("boundary") {
                let v = v.trim();
                let v = v.strip_prefix('"').and_then(|v| v.strip_suffix('"')).unwrap_or(v);
                if v.is_empty() || v.len() > 70 {
                    return Err(format!("boundary {v:?} has an illegal length"));
                }
                return Ok(v.as_bytes().to_vec());
            }
        }
    }
    Err("no boundary parameter".into())
}

pub fn parse_content_range(v: &[u8]) -> Result<(u64, u64, u64), String> {
    let s = std::str::from_utf8(v).map_err(|_| "Content-Range is not ASCII".to_string())?;
    let err = || format!("Content-Range {s:?} is not `bytes a-b/L`");
    let rest = s.trim().strip_prefix("bytes").ok_or_else(err)?;
    let rest = rest.trim_start();
    let (r, l) = rest.split_once('/').ok_or_else(err)?;
    let (a, b) = r.split_once('-').ok_or_else(err)?;
    let num = |x: &str| -> Result<u64, String> {
        let x = x.trim();
        if x.is_empty() || !x.bytes().all(|c| c.is_ascii_digit()) {
            return Err(err());
        }
        x.parse::<u64>().map_err(|_| err())
    };
    Ok((num(a)?, num(b)?, num(l)?))
}

fn read_line(c: &mut Cur) -> Result<Vec<u8>, String> {
    let mut line = Vec::new();
    loop {
        match c.next() {
            None => return Err("body ends inside a part header line".into()),
            Some(b'\r') => {
                if c.next() != Some(b'\n') {
                    return Err("bare CR in part headers".into());
                }
                return Ok(line);
            }
            Some(b) => {
                line.push(b);
                if line.len() > 1 << 16 {
                    return Err("part header line longer than 64 KiB".into());
                }
            }
        }
    }
}

/// Parses the whole body. Every part's payload is delimited by its own Content-Range and must
/// be exactly the entity bytes it names; whatever follows must be a delimiter.
pub fn parse(segs: &[Seg], seed: u64, boundary: &[u8]) -> Result<Vec<Part>, String> {
    let mut c = Cur::new(segs, seed);
    let mut dash = b"--".to_vec();
    dash.extend_from_slice(boundary);
    let mut parts = Vec::new();

    // Optional CRLF (empty preamble), then the first dash-boundary.
    c.eat(b"\r\n");
    if !c.eat(&dash) {
        return Err(format!(
            "body does not start with the dash-boundary; starts with {:?}",
            c.describe_rest()
        ));
    }
    loop {
        // After a dash-boundary: "--" closes, otherwise (padding) CRLF starts a part.
        if c.eat(b"--") {
            while matches!(c.peek(), Some(b' ' | b'\t')) {
                c.next();
            }
            c.eat(b"\r\n");
            if !c.at_end() {
                return Err(format!(
                    "bytes after the close delimiter: {:?}",
                    c.describe_rest()
                ));
            }
            return Ok(parts);
        }
        while matches!(c.peek(), Some(b' ' | b'\t')) {
            c.next();
        }
        if !c.eat(b"\r\n") {
            return Err(format!(
                "delimiter line not terminated by CRLF at byte {}: {:?}",
                c.pos,
                c.describe_rest()
            ));
        }
        // Part headers.
        let mut cr = None;
        let mut headers = Vec::new();
        loop {
            let line = read_line(&mut c)?;
            if line.is_empty() {
                break;
            }
            let Some(colon) = line.iter().position(|&b| b == b':') else {
                return Err(format!(
                    "part header line without a colon: {:?}",
                    String::from_utf8_lossy(&line)
                ));
            };
            let name = String::from_utf8_lossy(&line[..colon]).trim().to_ascii_lowercase();
            let mut val = &line[colon + 1..];
            while let [b' ' | b'\t', r @ ..] = val {
                val = r;
            }
            while let [r @ .., b' ' | b'\t'] = val {
                val = r;
            }
            if name == "content-range" {
                if cr.is_some() {
                    return Err("part with two Content-Range headers".into());
                }
                cr = Some(parse_content_range(val)?);
            } else {
                headers.push((name, val.to_vec()));
            }
        }
        let Some((a, b, total)) = cr else {
            return Err(format!("part {} has no Content-Range", parts.len() + 1));
        };
        if a > b {
            return Err(format!("part {} Content-Range {a}-{b} is empty/inverted", parts.len() + 1));
        }
        let len = (b - a).checked_add(1).ok_or("part length overflows")?;
        c.take_entity(a, len)
            .map_err(|e| format!("part {} ({a}-{b}): {e}", parts.len() + 1))?;
        parts.push(Part { a, b, total, headers });
        // Next delimiter.
        if !c.eat(b"\r\n") || !c.eat(&dash) {
            return Err(format!(
                "part {} ({a}-{b}) is not followed by a delimiter but by {:?}",
                parts.len(),
                c.describe_rest()
            ));
        }
    }
}
