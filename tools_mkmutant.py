#!/usr/bin/env python3
"""mkmutant NAME FILE <<< JSON {"old":..., "new":..., "props":[...], "kind":"break"|"neutral", "note":...}
Creates /verif/mutants/NAME.diff from a textual replacement in /repo/FILE (reverted afterwards)."""
import sys, json, subprocess
name, f = sys.argv[1], sys.argv[2]
spec = json.load(sys.stdin)
p = '/repo/' + f
s = open(p).read()
assert s.count(spec['old']) == 1, (name, s.count(spec['old']))
open(p, 'w').write(s.replace(spec['old'], spec['new']))
d = subprocess.run(['git', '-C', '/repo', 'diff'], capture_output=True, text=True).stdout
subprocess.run(['git', '-C', '/repo', 'checkout', '--', '.'], check=True)
open(f'/verif/mutants/{name}.diff', 'w').write(d)
json.dump({"props": spec['props'], "kind": spec.get('kind', 'break'), "note": spec.get('note', '')}, open(f'/verif/mutants/{name}.json', 'w'))
print(name, len(d.splitlines()), 'lines')
