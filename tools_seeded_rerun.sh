#!/bin/bash
# Regression over every kept seeded change: each property that reported it before must still report it.
set -u
cd /verif
if [ -n "$(git -C /repo status --porcelain --untracked-files=no)" ]; then echo "refusing: /repo dirty"; exit 2; fi
trap 'git -C /repo checkout -- . 2>/dev/null' EXIT
bad=0; n=0
: > seeded/RERUN.txt
for d in seeded/S*/; do
  id=$(basename "$d")
  props=$(python3 -c "import json;print(' '.join(json.load(open('$d/meta.json'))['checks_run']['caught_by']))")
  [ -z "$props" ] && { echo "$id: (not caught before, skipped)" | tee -a seeded/RERUN.txt; continue; }
  git -C /repo apply "/verif/$d/patch.diff" || { echo "$id: patch does not apply"; bad=1; continue; }
  for p in $props; do
    res=$(VERIF_EVIDENCE_DIR=/tmp/seeded-evidence ./check "$p" quick 2>&1); code=$?
    n=$((n+1))
    echo "$id $p exit=$code $(echo "$res" | grep -E '^violation:' | head -1 | cut -c1-120)" >> seeded/RERUN.txt
    [ $code = 1 ] || { bad=1; echo "LOST: $id $p exit=$code"; }
  done
  git -C /repo checkout -- .
done
echo "seeded regression: $n check runs, lost=$bad" | tee -a seeded/RERUN.txt
exit $bad
