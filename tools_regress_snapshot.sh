#!/bin/bash
# Regression jobs that do not touch /repo: meant for `vp run --with-repo -- ./tools_regress_snapshot.sh <what>`,
# i.e. inside a snapshot of /verif with its own snapshot of /repo in $VP_RUN_REPO. The simulator
# crates are pointed at that copy, patches are applied to it, and every check's quick tier runs
# there.   what = neutral [ids] | seeded | new-seeded <ids> | neutral-wire (wire-sim part only)
set -u
what=${1:-neutral}; shift || true
ONLY="$*"   # optional list of ids (neutral) to restrict to
REPO=${VP_RUN_REPO:?run me through vp run --with-repo}
HERE=$(cd "$(dirname "$0")" && pwd)
cd "$HERE" || exit 2
sed -i "s|path = \"/repo\"|path = \"$REPO\"|" sim/Cargo.toml msim/Cargo.toml
export VERIF_REPO="$REPO" VERIF_EVIDENCE_DIR="$HERE/evidence-scratch" CARGO_NET_OFFLINE=true
bad=0
restore() { git -C "$REPO" checkout -- . 2>/dev/null; }
trap restore EXIT
case $what in
neutral|neutral-wire)
  for d in neutral/*/; do
    id=$(basename "$d")
    if [ -n "$ONLY" ] && ! echo " $ONLY " | grep -q " $id "; then continue; fi
    git -C "$REPO" apply "$HERE/$d/patch.diff" || { echo "$id: patch does not apply"; bad=1; continue; }
    n=0; ok=0
    for p in ${CHECKS:-C01 C02 C06 C07 C08 C09 C10 C11 C12 C13 C14 C15 C17 C18 C20}; do
      if [ $what = neutral-wire ]; then export VERIF_ONLY_ENGINE=wire-sim; fi
      res=$(VERIF_SECOND_PASS=${VERIF_SECOND_PASS:-0} ./check "$p" quick 2>&1); code=$?
      n=$((n+1)); [ $code = 0 ] && ok=$((ok+1))
      [ $code = 0 ] || { bad=1; echo "ALARM $id $p exit=$code $(echo "$res" | grep -E '^violation:|HARNESS' | head -1 | cut -c1-400)"; }
    done
    restore
    echo "$id: $ok/$n silent"
  done ;;
new-seeded)
  # new-seeded <id>... : ids like S10-C07 (property taken from the id); both build profiles
  for id in $ONLY; do
    p=$(echo "$id" | sed 's/.*-\(C[0-9][0-9]\).*/\1/')
    case "$id" in *:*) p=${id#*:}; id=${id%%:*};; esac   # S12-C06:C07 = run check C07 against S12-C06
    git -C "$REPO" apply "$HERE/seeded/$id/patch.diff" || { echo "$id: patch does not apply"; bad=1; continue; }
    res=$(VERIF_MIRI=${VERIF_MIRI:-0} VERIF_SECOND_PASS=0 ./check "$p" quick 2>&1); code=$?
    echo "$id $p exit=$code $(echo "$res" | grep -E '^violation:|HARNESS' | head -1 | cut -c1-330)"
    res=$(VERIF_MIRI=0 VERIF_PROFILE=nochecks ./check "$p" quick 2>&1); code2=$?
    echo "$id $p nochecks exit=$code2 $(echo "$res" | grep -E '^violation:|HARNESS' | head -1 | cut -c1-230)"
    [ $code = 1 ] || bad=1
    restore
  done ;;
miri-soak)
  # Miri parts only, thorough budgets, on the unchanged tree of the snapshot: any report is a false alarm.
  for p in C10 C11 C18 C12 C20 C08 C13 C02; do
    res=$(VERIF_ONLY_ENGINE=none VERIF_SECOND_PASS=0 ./check "$p" thorough 2>&1); code=$?
    echo "$p exit=$code $(echo "$res" | grep -E 'part miri' | cut -c1-90) $(echo "$res" | grep -E '^violation:|HARNESS' | head -1 | cut -c1-300)"
    [ $code = 0 ] || bad=1
  done ;;
seeded)
  n=0
  for d in seeded/S*/; do
    id=$(basename "$d")
    props=$(python3 -c "import json;print(' '.join(json.load(open('$d/meta.json'))['checks_run']['caught_by']))")
    [ -z "$props" ] && continue
    git -C "$REPO" apply "$HERE/$d/patch.diff" || { echo "$id: patch does not apply"; bad=1; continue; }
    for p in $props; do
      res=$(VERIF_MIRI=${VERIF_MIRI:-0} ./check "$p" quick 2>&1); code=$?
      n=$((n+1))
      echo "$id $p exit=$code $(echo "$res" | grep -E '^violation:' | head -1 | cut -c1-120)"
      [ $code = 1 ] || { bad=1; echo "LOST: $id $p exit=$code"; }
    done
    restore
  done
  echo "seeded regression: $n check runs, lost=$bad" ;;
esac
echo "DONE $what bad=$bad"
exit $bad
