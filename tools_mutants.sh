#!/bin/bash
# Sensitivity self-test: applies each catalogue patch (/verif/mutants/*.diff) to /repo, runs the quick
# tier of the properties it targets, and reverts. "break" mutants must be reported by every
# listed property; "neutral" refactors must stay silent. /repo is always restored.
#   tools_mutants.sh [name-prefix ...]
set -u
cd /verif
if [ -n "$(git -C /repo status --porcelain --untracked-files=no)" ]; then echo "refusing: /repo has uncommitted changes"; exit 2; fi
trap 'git -C /repo checkout -- . 2>/dev/null' EXIT
out=/verif/mutants/RESULTS.txt
: > "$out.tmp"
fail=0
for d in mutants/*.diff; do
  name=$(basename "$d" .diff)
  if [ $# -gt 0 ]; then m=0; for p in "$@"; do case "$name" in $p*) m=1;; esac; done; [ $m = 1 ] || continue; fi
  kind=$(python3 -c "import json;print(json.load(open('mutants/$name.json'))['kind'])")
  props=$(python3 -c "import json;print(' '.join(json.load(open('mutants/$name.json'))['props']))")
  if ! git -C /repo apply "/verif/$d"; then echo "$name: PATCH DOES NOT APPLY" | tee -a "$out.tmp"; fail=1; continue; fi
  for p in $props; do
    res=$(VERIF_EVIDENCE_DIR=/tmp ./check "$p" quick 2>&1); code=$?
    line=$(echo "$res" | grep -E '^violation:' | head -1 | cut -c1-160)
    want=$([ "$kind" = break ] && echo 1 || echo 0)
    verdict=ok; [ "$code" = "$want" ] || { verdict=UNEXPECTED; fail=1; }
    echo "$name [$kind] $p exit=$code $verdict $line" | tee -a "$out.tmp"
  done
  git -C /repo checkout -- .
done
mv "$out.tmp" "$out.last"
exit $fail
