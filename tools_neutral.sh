#!/bin/bash
# tools_neutral.sh <ID> <worktree>: files a behaviour-preserving refactor written by a sub-agent under
# /verif/neutral/<ID>/, confirms the 35-test suite passes with it, applies it to /repo, runs EVERY
# check's quick tier (both passes), and reverts. Any VIOLATION here is a false alarm to investigate
# (or the refactor is not neutral after all).
set -u
id=$1; wt=$2
N=/verif/neutral/$id; mkdir -p "$N"
cp "$wt/patch.diff" "$N/patch.diff"
cd "$wt" && export CARGO_NET_OFFLINE=true
git checkout -- src/ && git apply patch.diff || { echo "patch does not apply"; exit 2; }
cargo test --offline 2>&1 | grep -E '^test result|FAILED|error\[' > "$N/suite.log"; cat "$N/suite.log" | tr '\n' ';'; echo
cd /verif
if [ -n "$(git -C /repo status --porcelain --untracked-files=no)" ]; then echo "refusing: /repo dirty"; exit 2; fi
trap 'git -C /repo checkout -- . 2>/dev/null' EXIT
git -C /repo apply "$N/patch.diff" || { echo "patch does not apply to /repo"; exit 2; }
: > "$N/checks.log"
for p in C01 C02 C06 C07 C08 C09 C10 C11 C12 C13 C14 C15 C17 C18 C20; do
  res=$(VERIF_EVIDENCE_DIR=/tmp/neutral-evidence ./check "$p" quick 2>&1); code=$?
  echo "$p exit=$code $(echo "$res" | grep -E '^violation:|HARNESS|^error' | head -1 | cut -c1-400)" | tee -a "$N/checks.log"
done
git -C /repo checkout -- .
