#!/bin/bash
# tools_seeded.sh verify <ID> <worktree>        : confirm a sub-agent's change in its worktree and file it under /verif/seeded/<ID>/
# tools_seeded.sh run <ID> <PROP> [PROP...]     : apply /verif/seeded/<ID>/patch.diff to /repo, run the quick checks, undo
set -u
cmd=$1; id=$2; shift 2
S=/verif/seeded/$id
case $cmd in
verify)
  wt=$1
  mkdir -p "$S"
  cd "$wt" || exit 2
  cp patch.diff "$S/patch.diff"; cp tests/seeded_demo.rs "$S/seeded_demo.rs"
  export CARGO_NET_OFFLINE=true
  git checkout -- src/ || exit 2
  echo "== clean tree: demo must pass"; cargo test --offline --test seeded_demo 2>&1 | grep -E '^test result|FAILED|error' | head -5 | tee "$S/verify.log"
  git apply patch.diff || { echo "patch does not apply"; exit 2; }
  echo "== patched: existing suite must pass" | tee -a "$S/verify.log"
  mv tests/seeded_demo.rs /tmp/seeded_demo_$id.rs
  cargo test --offline 2>&1 | grep -E '^test result|FAILED|error\[' | tee -a "$S/verify.log"
  cargo build --offline --features verif-hooks 2>&1 | grep -E '^error|Finished' | tee -a "$S/verify.log"
  mv /tmp/seeded_demo_$id.rs tests/seeded_demo.rs
  echo "== patched: demo must fail" | tee -a "$S/verify.log"
  cargo test --offline --test seeded_demo 2>&1 | grep -E '^test result|FAILED' | head -5 | tee -a "$S/verify.log"
  ;;
run)
  cd /verif
  if [ -n "$(git -C /repo status --porcelain --untracked-files=no)" ]; then echo "refusing: /repo has uncommitted changes"; exit 2; fi
  trap 'git -C /repo checkout -- . 2>/dev/null' EXIT
  git -C /repo apply "$S/patch.diff" || { echo "patch does not apply to /repo"; exit 2; }
  LOGF="$S/checks${VERIF_PROFILE:+-$VERIF_PROFILE}.log"; : > "$LOGF"
  for p in "$@"; do
    res=$(VERIF_EVIDENCE_DIR=/tmp/seeded-evidence ./check "$p" quick 2>&1); code=$?
    echo "$p exit=$code $(echo "$res" | grep -E '^violation:' | head -1 | cut -c1-300)" | tee -a "$LOGF"
  done
  git -C /repo checkout -- .
  ;;
esac
