#!/usr/bin/env python3
"""Writes /verif/MANIFEST.json from the table below (single source for check entries)."""
import json, subprocess, os
HERE = os.path.dirname(os.path.abspath(__file__))

def hooks_commits():
    out = subprocess.run(["git", "-C", "/repo", "log", "--format=%h %s"], capture_output=True, text=True).stdout
    return [l.split()[0] for l in out.splitlines() if " verif-hooks:" in " " + l]

CLAIMED = {
 "C01": ("exploration", "serve-sim+wire-sim", "4.1", "seeded deterministic simulation of serve() over a simulated entity/consumer/clock; announced length vs delivered bytes per run; plus the real hyper HTTP/1 connection over a simulated socket (short writes, back-pressure, pipelining): Content-Length and framing as parsed from the wire",
         "Seeded search over (clock, entity incl. lengths up to 2^64-1, request, chunking/Pending plan incl. runs of consecutive empty chunks of dictionary length anywhere in the stream, consumer policy); every run compares Content-Length and the exact size hint with the bytes actually delivered, frame by frame. Sampling, not proof.",
         "Trusts the simulator's consumer and entity stubs; entity data is virtual (offset-identified), so lengths near 2^64 are really drained."),
 "C02": ("exploration", "serve-sim+file-sim+miri-sim+wire-sim", "4.2", "seeded deterministic simulation; body identity by entity offsets against the response's own headers; entity read log; sequences over the crate's own file entity; concurrent serve() on one shared file entity under Miri's seeded scheduler; body bytes inside the HTTP framing on the wire behind real hyper",
         "Every 200/206 body is compared, by entity offset, with exactly the bytes its status and Content-Range name, under adversarial chunkings; the entity's get_range log must match. One run in six lets entity streams fail with an Err, up to three times per response (also on a stream opened again after a failure): a body that still ends cleanly is judged in full.",
         "Identity is by offset for virtual stretches and by value for literal bytes."),
 "C06": ("exploration", "serve-sim+wire-sim", "4.3", "seeded deterministic simulation; independent tolerant multipart/byteranges parser over delivered frames, and over the de-framed wire bytes behind real hyper",
         "Multi-range workloads over all decimal widths and entity header sets (values also mined from the crate's own string literals, so that data collides with delimiters and header syntax); an independent parser requires parts = the request's satisfiable ranges in order, exact payloads, entity headers iff no If-Range, close delimiter, exact Content-Length. One run in six lets entity streams fail with an Err (up to three times per response): such a body must not end cleanly short of its Content-Length.",
         "Requests containing a spec RFC 7233 and the implementation read differently (suffix >= length, last < first) are checked for consistency only."),
 "C07": ("fault_enumeration", "serve-sim+wire-sim", "4.4", "fault injection on the entity stream seam (early end, error, extra byte/chunk, empty chunks singly and in runs of dictionary length, Pending) at sampled positions; seeded; the same faults behind the real hyper connection: a truncated response must not look complete on the wire",
         "One stream fault per run (sometimes a compensating pair) across response shapes, fault kinds, parts, byte positions and chunk indices, on entity streams half of which give their exhaustion away through Stream::size_hint; the evidence lists grid cells hit. Short/failed streams must surface an error before any clean end; long streams never pass on more than announced.",
         "Cells are sampled by seed, not enumerated; the grid reached is reported."),
 "C08": ("exploration", "chunk-sim+thread-sim+miri-sim+wire-sim", "4.5", "seeded operation histories over the real BodyWriter/Body pair checked against an accepted-byte-log reference model; the same oracle with the producer on its own thread (baton scheduler; Miri's seeded scheduler); and behind the real hyper connection over a simulated socket, judged on the de-framed wire bytes",
         "Interleaved producer (write, write_all, flush, drop) and consumer (poll, poll-until-pending) operations over chunk sizes 1..65536; frames must be non-empty, a prefix of the accepted bytes at every step, complete after every flush, and equal to the accepted bytes after the writer is dropped.",
         "Operation-granularity interleavings only (inside-operation interleavings are C10's thread-sim)."),
 "C09": ("exploration", "chunk-sim+thread-sim+wire-sim", "4.6", "same histories with gzip negotiated; independent hand-written inflater/gzip parser as the client; reference model = accepted bytes; also with the producer on its own thread and behind the real hyper connection (wire bytes de-framed, then inflated)",
         "Levels 1..9, chunk sizes from 1 byte, four payload kinds; after every successful flush the frames obtainable so far must inflate to every accepted byte, and the final body must be exactly one gzip member (CRC, ISIZE, no trailing bytes).",
         "One open known finding (F6, dependency flate2/miniz_oxide withholds bytes on flush) is identified narrowly (the chunk writer handed over every byte it was given - hook H4 - AND at least 30 000 bytes were written since the stream was last complete, which flate2's 32 KiB buffer needs to be full) and reported as KNOWN-FINDING; any other shortfall is a violation."),
 "C10": ("exploration", "thread-sim+miri-sim", "4.7", "real producer and consumer threads under a seeded baton scheduler (random / sticky / PCT) at lock-acquire, lock-release and wake granularity; deadlock = lost wake-up; plus the same pair free-running inside the Miri interpreter, whose seeded scheduler pre-empts at basic-block granularity (one Miri seed = one replayable interleaving)",
         "Producer programs (write/flush/wait-until-delivered/abort/drop) against a consumer that parks on Pending until the waker of its latest poll fires, with spurious polls and fresh wakers; one run in sixteen starts with a backlog of K flushed pieces nobody has read (K from the source dictionary, up to 1100). Oracles: no deadlock, no Pending once the writer is gone, everything written arrives before a clean end, abort never ends cleanly.",
         "The baton scheduler switches only at lock/wake points; races between plain or atomic accesses outside the mutex are reached by the Miri part (fewer runs, finer grain). Schedules are sampled, not enumerated."),
 "C11": ("fault_enumeration", "chunk-sim+thread-sim+miri-sim+wire-sim", "4.8", "abort and body-drop (alone or both in one run) injected at drawn positions of operation histories, at every scheduling point in thread-sim, and racing freely under Miri's seeded pre-emptive scheduler; behind real hyper: abort must leave an incomplete message on the wire, and a client disconnect injected as socket write errors at a drawn byte must reach the writer; per-thread heap counter for the release clause",
         "Faults = abort / body drop before any data, mid-chunk, after a flush, after partial consumption, behind a backlog of up to 1100 flushed pieces (thread-sim), raw and gzip. Abort: next terminal event is an error, never end-of-stream before it, delivered bytes a prefix, later writes/flushes fail. Body drop: flushes with data and chunk-completing writes fail, accepted-without-error bytes stay below one chunk, queued memory is released.",
         "Weaker reading where the text leaves room: a flush with nothing to hand over may return Ok after the body is gone."),
 "C17": ("exploration", "chunk-sim+wire-sim", "4.13", "seeded configurations of streaming_body (Accept-Encoding x level x method x request representation); simulated client decodes according to the response header",
         "Vary always present; Content-Encoding: gzip iff should_gzip(request) && level > 0 (Accept-Encoding values from a table and generated: 1-4 codings with optional qualities in any order; builder calls in any interleaving); the client picks its decoder from the header and must recover exactly the written bytes; HEAD gets no writer; an earlier response on the same thread (own history, possibly ending in a client disconnect or abort, possibly the same configuration) precedes half of the runs.",
         "should_gzip itself is the negotiation oracle, as the property states."),
 "C12": ("exploration", "serve-sim+chunk-sim+thread-sim+file-sim+miri-sim", "4.9", "per-step invariant monitor attached to every simulated consumer (all engines, incl. a consumer thread racing a producer thread under the baton scheduler and under Miri's seeded scheduler)",
         "size_hint()/is_end_stream() sampled before every poll in all engines; bounds must bracket what is later delivered on a clean end, exactness for serve/Body::from, and nothing but the end may follow a true end-of-stream flag.",
         "For serve only contract-honouring entities count (fault-free or failing early with Err)."),
 "C13": ("exploration", "serve-sim+miri-sim+wire-sim", "4.10", "seeded simulation with request-corruption faults; panics caught around serve() and every poll; status set invariant; plus serve() called from 2-3 threads on one shared ChunkedReadFile under Miri's seeded pre-emptive scheduler (crash-freedom under concurrency, UB and data races reported); hostile request bytes through hyper's parser and client disconnects mid-response without a panic in the connection task",
         "By-product invariant of every serve-sim run plus a hostile-request workload (bit flips, truncations, hostile numbers, duplicated header lines, any method, extreme entities).",
         "Input dimension only as wide as the generator; a coverage-guided fuzzer would explore it further."),
 "C14": ("exploration", "serve-sim", "4.11", "two-request histories under a simulated clock with forward/backward jumps; served validators echoed back",
         "First response's validators are echoed in a second request after a clock move (same instant, next second, hours, backwards, before the mtime); requests with no, one or many ranges (counts also from the source dictionary, up to 400); header clauses re-checked at both clock values.",
         "Date echoes asserted only when mtime <= clock at the first request."),
 "C15": ("exploration", "serve-sim+chunk-sim+wire-sim", "4.12", "paired GET/HEAD exchanges against the same simulated world; entity read-counter seam; GET and HEAD twins on one keep-alive connection of the real hyper server (also pipelined)",
         "Every generated request is replayed as HEAD with the clock advanced; status and all non-clock headers must be equal, body empty with exact hint 0, zero get_range calls.",
         "Request space as wide as the serve-sim generator."),
 "C18": ("fault_enumeration", "file-sim+miri-sim", "4.14", "real ChunkedReadFile on real temp files with the positioned read behind a fault-injecting seam (truncate, extend, short read, EINTR, EIO at a drawn read instant); two streams interleaved at every system call; 2-3 threads sharing one instance under Miri's seeded pre-emptive scheduler",
         "File size classes around the 64 KiB read size x range shapes x read-size policies x one fault at a drawn read index, polled directly and through serve(); plus metadata scenarios (reopen, append, mtime change, replace by rename) and the refusal clause over ten kinds of non-regular descriptors (directory, character devices, socket, socket path, FIFO, pipe, symlink handle, symlink to a directory, O_PATH directory, anonymous inode) with two regular controls.",
         "Linux local file system semantics; grid cells are sampled and reported."),
 "C20": ("fault_enumeration", "serve-sim+chunk-sim+file-sim+thread-sim+miri-sim", "4.15", "over-polling (k=1..4) after every terminal event produced under injected faults",
         "After each kind of terminal event (clean end, entity error, too short, too long, end-of-stream flag) at sampled fault positions the consumer polls 1..4 more times: no panic, no data.",
         "The simulated entity's streams are fused, as the property presupposes."),
}

NA = {
 "C03": "pure function of one Range header value and one length: no schedule, clock, fault or history for a simulator to control (DESIGN.md section 5)",
 "C04": "pure function of four request headers and static entity metadata; the clock is not consulted (DESIGN.md section 5)",
 "C05": "byte comparison of one header with the entity's static ETag; nothing the simulator controls can change its outcome (DESIGN.md section 5)",
 "C16": "should_gzip is a pure function of one header value (DESIGN.md section 5)",
 "C19": "function of a path string and a static directory tree; its only concurrency (spawn_blocking) is awaited before returning (DESIGN.md section 5)",
}
PENDING = {}

def main():
    extra = json.load(open(os.path.join(HERE, "manifest_extra.json"))) if os.path.exists(os.path.join(HERE, "manifest_extra.json")) else {}
    claimed = dict(CLAIMED); claimed.update({k: tuple(v) for k, v in extra.get("claimed", {}).items()})
    pending = dict(PENDING); pending.update(extra.get("pending", {}))
    checks = []
    for pid in sorted(claimed):
        level, engine, ref, technique, text, note = claimed[pid]
        checks.append({
            "property_id": pid,
            "quick_cmd": f"./check {pid} quick",
            "thorough_cmd": f"./check {pid} thorough",
            "evidence_file": f"/verif/evidence/{pid}.json",
            "replay_cmd_template": "./check replay {path}",
            "engine": engine,
            "level_claimed": {"category": level, "text": text, "design_ref": f"DESIGN.md section {ref}"},
            "level_note": note,
            "technique": technique,
        })
    na = [{"property_id": k, "reason": v} for k, v in sorted({**NA, **pending}.items()) if k not in claimed]
    m = {
        "version": 1,
        "setup_cmd": "cd /verif/sim && CARGO_NET_OFFLINE=true cargo build --release --offline && CARGO_NET_OFFLINE=true cargo build --profile nochecks --offline && (cd /verif/msim && CARGO_NET_OFFLINE=true MIRIFLAGS= cargo +nightly miri run --offline --quiet -- noop >/dev/null 2>&1; true)",
        "hooks": {
            "guard": "verif-hooks",
            "enable": "cargo feature: /verif/sim/Cargo.toml depends on http-serve = { path = \"/repo\", features = [\"verif-hooks\"] }",
            "baseline_off_cmd": "cd /repo && CARGO_NET_OFFLINE=true cargo test --workspace --no-fail-fast --offline",
            "source_commits": hooks_commits(),
            "add_only": True,
        },
        "engines": extra.get("engines", [
            {"name": "chunk-sim", "path": "/verif/sim/src/engine_b.rs", "serves_properties": ["C08","C09","C11","C12","C15","C17","C20"],
             "kind_free_text": "operation-granularity histories over the real streaming_body writer/body pair with a reference model and an independent inflater"},
            {"name": "thread-sim", "path": "/verif/sim/src/engine_c.rs", "serves_properties": ["C08","C09","C10","C11","C12","C20"],
             "kind_free_text": "real producer/consumer threads under a seeded baton scheduler hooked into the chunker's mutex and the wakers"},
            {"name": "file-sim", "path": "/verif/sim/src/engine_d.rs", "serves_properties": ["C18","C02","C12","C20"],
             "kind_free_text": "real ChunkedReadFile over real files with a fault-injecting read seam"},
            {"name": "miri-sim", "path": "/verif/msim/src/main.rs (scenarios) + /verif/sim/src/engine_e.rs (driver)", "serves_properties": ["C02","C08","C10","C11","C12","C13","C18","C20"],
             "kind_free_text": "the real writer/body pair and the real ChunkedReadFile on free-running std threads inside the Miri interpreter; Miri's scheduler pre-empts at basic-block granularity from -Zmiri-seed, so one (workload, seed) pair is one exactly repeatable interleaving; deadlocks, data races and UB are reported by the interpreter"},
            {"name": "wire-sim", "path": "/verif/sim/src/engine_f.rs", "serves_properties": ["C01","C02","C06","C07","C08","C09","C11","C13","C15","C17"],
             "kind_free_text": "the real hyper HTTP/1 server connection as consumer over a simulated socket (piecewise reads, short writes, back-pressure, client disconnect at a drawn byte, pipelining) and a wake-driven executor; the response is parsed from the wire by an independent HTTP/1 parser"},
            {"name": "serve-sim", "path": "/verif/sim/src/engine_a.rs", "serves_properties": ["C01","C02","C06","C07","C12","C13","C14","C15","C20"],
             "kind_free_text": "deterministic simulation of serve(): simulated entity streams (chunking, Pending, faults), consumer, clock"},
        ]),
        "checks": checks,
        "not_applicable": na,
        "notes": "One simulator crate (/verif/sim), one tape-based PRNG per run, replay files under /verif/replays, defects found and fixed listed in /verif/known_findings.json. VERIF_SEED selects the seed (default 1).",
    }
    json.dump(m, open(os.path.join(HERE, "MANIFEST.json"), "w"), indent=1)
    print("wrote MANIFEST.json:", len(checks), "checks,", len(na), "not applicable")

main()
