#!/bin/bash
# Re-applies every kept behaviour-preserving rewrite (/verif/neutral/*/patch.diff) to /repo and runs
# every check's quick tier against it (first pass); /repo is restored afterwards.
set -u
cd /verif
if [ -n "$(git -C /repo status --porcelain --untracked-files=no)" ]; then echo "refusing: /repo dirty"; exit 2; fi
trap 'git -C /repo checkout -- . 2>/dev/null' EXIT
bad=0
for d in neutral/*/; do
  id=$(basename "$d")
  git -C /repo apply "/verif/$d/patch.diff" || { echo "$id: patch does not apply"; bad=1; continue; }
  : > "$d/checks-rerun.log"
  for p in C01 C02 C06 C07 C08 C09 C10 C11 C12 C13 C14 C15 C17 C18 C20; do
    res=$(VERIF_SECOND_PASS=${VERIF_SECOND_PASS:-0} VERIF_EVIDENCE_DIR=/tmp/neutral-evidence ./check "$p" quick 2>&1); code=$?
    echo "$p exit=$code $(echo "$res" | grep -E '^violation:|HARNESS' | head -1 | cut -c1-300)" >> "$d/checks-rerun.log"
    [ $code = 0 ] || { bad=1; echo "$id $p exit=$code $(echo "$res" | grep -E '^violation:|HARNESS' | head -1 | cut -c1-300)"; }
  done
  git -C /repo checkout -- .
  echo "$id: $(grep -c 'exit=0' "$d/checks-rerun.log")/15 silent"
done
exit $bad
